"""Sanitizer / real-runtime stages of the thorough tier.

Engines
  miri    cargo +nightly miri run  (UB, aliasing, leaks; data races in the threaded workloads)
  tsan    -Zsanitizer=thread -Zbuild-std (data races, 1000x Miri's volume)
  native  the same fgv_san workloads run natively (tokio current-thread runtime: cooperative budget)

Attribution: an oracle violation printed by the workload counts for the property it names; a data
race in a threaded workload is a violation of the property whose check launched it; any other
sanitizer report (aliasing UB, leak) is not the subject of a listed property: reported as
SANITIZER-REPORT, check exits 2 (needs triage), never a VIOLATION line.
"""
import os
import re
import subprocess
import time
from concurrent.futures import ThreadPoolExecutor

# property -> list of (engine, mode, configs, nprocs, iters, max_n)
PLAN = {
    "C01": [("miri", "director", "AB", 3, 2, 5)],
    "C02": [("miri", "director", "AB", 3, 2, 5)],
    "C03": [("miri", "director", "AB", 3, 2, 5), ("native", "runtime", "AB", 4, 12, 8)],
    "C04": [("miri", "director", "AB", 4, 2, 4), ("native", "runtime", "AB", 8, 12, 8)],
    "C05": [("miri", "director", "AB", 2, 2, 5), ("miri", "xthread", "A", 8, 6, 5), ("tsan", "xthread", "AB", 8, 1500, 7)],
    "C06": [("miri", "director", "AB", 3, 2, 5)],
    "C07": [("miri", "director", "AB", 3, 2, 5)],
    "C08": [("miri", "director", "B", 4, 2, 5)],
    "C09": [("miri", "director", "AB", 3, 2, 5)],
    "C10": [("miri", "director", "AB", 3, 2, 5), ("native", "runtime", "AB", 4, 12, 8)],
    "C15": [("miri", "director", "AB", 3, 2, 5)],
    "C19": [
        ("tsan", "tokio", "A", 8, 300, 7),
        ("tsan", "threads", "AB", 4, 100, 6),
        ("tsan", "xthread", "AB", 4, 800, 7),
        ("miri", "tokio", "A", 6, 2, 4),
        ("miri", "xthread", "AB", 3, 4, 4),
    ],
    "C18": [("callgrind", "growth", "A", 8, 0, 0)],
    "C20": [("tsan", "threads", "AB", 8, 200, 6), ("miri", "threads", "AB", 4, 2, 4), ("miri", "director", "A", 2, 2, 5)],
}

RACE_PROPS_BY_MODE = {"xthread", "threads", "tokio"}


def _build(check, engine, cfg, mode=""):
    """Returns (ok, binary path or cargo argv prefix, stderr)."""
    harness = check.HARNESS
    env = dict(check.ENV)
    # the tokio multi-thread mode needs the harness feature `mt` (Send-requiring workload), config A only
    feats = ["--features", "b"] if cfg == "B" else []
    sfx = ""
    if engine == "native":
        ok, err = check.cargo_build(cfg, bins=("fgv_san",))
        return ok, [check.bin_path(cfg, "fgv_san")], err, env
    if engine == "tsan":
        tdir = os.path.join(check.TARGET, "tsan-" + cfg.lower() + sfx)
        env["CARGO_TARGET_DIR"] = tdir
        env["RUSTFLAGS"] = "-Zsanitizer=thread"
        cmd = ["cargo", "+nightly", "build", "--offline", "-Zbuild-std", "--target", "x86_64-unknown-linux-gnu", "--release", "--bin", "fgv_san"] + feats
        p = subprocess.run(cmd, cwd=harness, env=env, stdout=subprocess.PIPE, stderr=subprocess.PIPE, text=True)
        runenv = dict(check.ENV)
        runenv["TSAN_OPTIONS"] = "halt_on_error=1 exitcode=66"
        return p.returncode == 0, [os.path.join(tdir, "x86_64-unknown-linux-gnu", "release", "fgv_san")], p.stderr, runenv
    if engine == "miri":
        tdir = os.path.join(check.TARGET, "miri-" + cfg.lower() + sfx)
        env["CARGO_TARGET_DIR"] = tdir
        env["MIRIFLAGS"] = "-Zmiri-disable-isolation"
        # build once (no run) so that parallel runs do not fight over the target dir lock
        cmd = ["cargo", "+nightly", "miri", "run", "--offline", "--bin", "fgv_san"] + feats + ["--", "--mode", "director", "--iters", "0"]
        p = subprocess.run(cmd, cwd=harness, env=env, stdout=subprocess.PIPE, stderr=subprocess.PIPE, text=True)
        ok = p.returncode == 0 and "SAN-SUMMARY" in p.stdout
        return ok, ["cargo", "+nightly", "miri", "run", "--offline", "--bin", "fgv_san"] + feats + ["--"], p.stderr + p.stdout, env
    raise ValueError(engine)


def _classify(engine, mode, out, err, rc):
    """-> (violations[list of dict], reports[list of str], inconclusive[list of str], executions)"""
    viol, reports, inconc = [], [], []
    execs = 0
    m = re.search(r"SAN-SUMMARY .*executions=(\d+)", out)
    if m:
        execs = int(m.group(1))
    for line in out.splitlines():
        if line.startswith("SAN-VIOLATION"):
            mm = re.match(r"SAN-VIOLATION property=(\S+) kind=(\S+) detail=(.*)", line)
            if mm:
                viol.append({"prop": mm.group(1), "kind": mm.group(2), "detail": mm.group(3), "case": mm.group(3).split(" | ", 1)[-1] if " | " in mm.group(3) else "", "log": ""})
    text = err + "\n" + out
    if engine == "tsan" and ("ThreadSanitizer: data race" in text or rc == 66):
        first = text[text.find("WARNING: ThreadSanitizer"):][:3000]
        viol.append({"prop": "RACE", "kind": "tsan-data-race", "detail": first, "case": "", "log": ""})
    elif engine == "tsan" and "ThreadSanitizer" in text:
        reports.append("tsan: " + text[text.find("ThreadSanitizer") - 20:][:1500])
    if engine == "miri":
        if "Data race detected" in text:
            first = text[text.find("error: Undefined Behavior"):][:3000]
            viol.append({"prop": "RACE", "kind": "miri-data-race", "detail": first, "case": "", "log": ""})
        elif "error: Undefined Behavior" in text:
            reports.append("miri UB: " + text[text.find("error: Undefined Behavior"):][:2500])
        elif "memory leaked" in text:
            reports.append("miri leak: " + text[text.find("error: memory leaked"):][:1500])
        elif "error: unsupported operation" in text:
            inconc.append("miri unsupported operation: " + text[text.find("error: unsupported operation"):][:600])
    if not m and not viol and not reports and not inconc:
        inconc.append(f"{engine}/{mode}: workload printed no summary (rc={rc}): {text[-600:]}")
    return viol, reports, inconc, execs


def callgrind_growth(check, cfg, seed, jobs):
    """C18: instruction counts (callgrind Ir, deterministic) of build() along the 8 growth
    families; three consecutive +2-layer steps each multiplying the count by >= 3 = violation."""
    ok, err = check.cargo_build(cfg, bins=("fgv_build",))
    if not ok:
        return {"inconclusive": [f"callgrind.{cfg}: build failed: {err[-800:]}"], "violations": [], "summary": {}}
    binp = check.bin_path(cfg, "fgv_build")

    def family(fam):
        series = []
        size = 6
        while size <= 44:
            cmd = ["valgrind", "--tool=callgrind", "--callgrind-out-file=/dev/null", "--toggle-collect=*build_measured*", binp, "--family", str(fam), "--size", str(size), "--seed", str(seed)]
            try:
                p = subprocess.run(cmd, cwd=check.VERIF, env=check.ENV, stdout=subprocess.PIPE, stderr=subprocess.PIPE, text=True, timeout=900)
            except subprocess.TimeoutExpired:
                return fam, series, "timeout"
            m = re.search(r"Collected : (\d+)", p.stderr)
            n = re.search(r"functions=(\d+)", p.stdout)
            if not m or not n:
                return fam, series, f"no count (rc={p.returncode}): {p.stderr[-300:]}"
            series.append((int(n.group(1)), int(m.group(1))))
            if int(m.group(1)) > 400_000_000:
                break
            size += 2
        return fam, series, None

    out = {"inconclusive": [], "violations": [], "summary": {}}
    with ThreadPoolExecutor(max_workers=min(8, jobs)) as ex:
        results = list(ex.map(family, range(8)))
    worst = 0.0
    points = 0
    for fam, series, err in results:
        points += len(series)
        if err:
            out["inconclusive"].append(f"callgrind.{cfg}: family {fam}: {err}")
            continue
        run = 0
        strong = 0
        for i in range(1, len(series)):
            a, b = series[i - 1][1], series[i][1]
            r = b / max(a, 1)
            # same rule as the native monitor: a step counts when the count grew by >= 3x AND by more
            # than a polynomial of degree 6 could over the same growth in n; three such steps in a
            # row, or two in a row that each exceed twice that threshold
            thr = max(3.0, (series[i][0] / max(series[i - 1][0], 1)) ** 6)
            if b >= 1_000_000:
                worst = max(worst, r / thr * 3.0)
            if b >= 1_000_000 and r >= thr:
                run += 1
                strong = strong + 1 if r >= 2 * thr else 0
                if run >= 3 or strong >= 2:
                    out["violations"].append({"prop": "C18", "kind": "build-instruction-count-grows-geometrically", "config": f"callgrind-{cfg}", "detail": f"growth family {fam}: instructions executed by build() (callgrind Ir) grow faster than any polynomial of degree <= 6 (and by >= 3x) on {'three' if run >= 3 else 'two (each by twice the threshold)'} consecutive +2-layer steps: (functions, instructions) = {series[:i + 1]}", "case": f"growth_family={fam}|seed={seed}", "log": ""})
                    break
            else:
                run = 0
                strong = 0
    out["summary"] = {"families": 8, "points_measured": points, "max_step_ratio_normalised_to_threshold_3": round(worst, 2), "series": {str(f): s for f, s, _ in results}}
    return out


def run(check, prop, seed, jobs):
    plan = PLAN.get(prop)
    if not plan:
        return None
    summary = {}
    violations, reports, inconclusive = [], [], []
    t0 = time.time()
    for engine, mode, cfgs, nprocs, iters, max_n in plan:
        if engine == "callgrind":
            for cfg in cfgs:
                r = callgrind_growth(check, cfg, seed, jobs)
                violations += r["violations"]
                inconclusive += r["inconclusive"]
                summary[f"callgrind.growth.{cfg}"] = r["summary"]
            continue
        for cfg in cfgs:
            ok, prefix, err, env = _build(check, engine, cfg, mode)
            key = f"{engine}.{mode}.{cfg}"
            if not ok:
                if prop == "C19" and re.search(r"cannot be (sent|shared) between threads safely", err):
                    blk = err[err.find("error"):][:2500]
                    violations.append({"prop": "C19", "kind": "does-not-compile-send-sync", "config": f"{engine}-{cfg}", "detail": f"the workload that moves the returned values across threads does not compile: {blk}", "case": f"cfg={cfg}", "log": ""})
                else:
                    inconclusive.append(f"{key}: build failed: {err[-1200:]}")
                continue

            def one(i):
                cmd = prefix + ["--mode", mode, "--seed", str(seed * 1000 + i), "--iters", str(iters), "--max-n", str(max_n)]
                try:
                    p = subprocess.run(cmd, cwd=check.HARNESS, env=env, stdout=subprocess.PIPE, stderr=subprocess.PIPE, text=True, timeout=1800)
                    return p.stdout, p.stderr, p.returncode
                except subprocess.TimeoutExpired:
                    return "", "timeout", -9

            with ThreadPoolExecutor(max_workers=min(nprocs, jobs)) as ex:
                results = list(ex.map(one, range(nprocs)))
            execs_total = 0
            nreports = 0
            for out, e, rc in results:
                if rc == -9:
                    inconclusive.append(f"{key}: watchdog (30 min) fired")
                    continue
                v, r, inc, execs = _classify(engine, mode, out, e, rc)
                execs_total += execs
                for x in v:
                    x["config"] = f"{engine}-{cfg}"
                    if x["prop"] == "RACE":
                        if mode in RACE_PROPS_BY_MODE:
                            x["prop"] = prop
                            violations.append(x)
                        else:
                            reports.append(f"{key}: {x['kind']}: {x['detail'][:1500]}")
                    elif x["prop"] == prop:
                        violations.append(x)
                    elif prop == "C04" and x["kind"] == "panic":
                        violations.append(x)
                    else:
                        summary.setdefault("other_property_violations_seen_not_attributed", []).append(f"{key}: {x['prop']} {x['kind']}")
                nreports += len(r)
                reports += [f"{key}: {x}" for x in r]
                inconclusive += [f"{key}: {x}" for x in inc]
            summary[key] = {"processes": nprocs, "executions": execs_total, "reports": nreports}
    summary["wall_s"] = round(time.time() - t0, 1)
    return {
        "summary": summary,
        "violations": violations,
        "reports": reports,
        "inconclusive": inconclusive,
        "needs_triage": bool(reports),
    }
