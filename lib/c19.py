"""C19: Send / Sync of the values the API returns.

Two parts, and the evidence says which is which:
 1. reflection probe (fgv_probe, configurations A and B): the trait solver's answer for the actual
    returned values, turned into run-time booleans by autoref specialisation, compared with the
    table the property states. Negative controls (Rc, fold_async's LocalBoxFuture future) must
    read false. This is NOT execution monitoring (a typing fact has no execution to monitor).
 2. (thorough, and a short native run in quick) the values are really moved across threads under
    ThreadSanitizer / Miri: tokio multi-thread runtime with spawned runs on an Arc<FnGraph>,
    FnRefs dropped on other threads, k threads sharing one graph. If that workload does not
    compile because of a missing Send/Sync (E0277), that is reported as the violation.
"""
import json
import os
import re
import subprocess
import time

EXPECT_TRUE_A = [
    "FnGraph.send", "FnGraph.sync", "FnRef.send", "stream.send", "stream_with.send",
    "for_each_concurrent.send", "for_each_concurrent_with.send",
    "for_each_concurrent_mut.send", "for_each_concurrent_mut_with.send",
    "try_for_each_concurrent.send", "try_for_each_concurrent_with.send",
    "try_for_each_concurrent_mut.send", "try_for_each_concurrent_mut_with.send",
    "try_for_each_concurrent_control.send", "try_for_each_concurrent_control_with.send",
    "try_for_each_concurrent_control_mut.send", "try_for_each_concurrent_control_mut_with.send",
]
EXPECT_TRUE_B = ["FnGraph.send", "FnGraph.sync", "FnRef.send", "stream.send", "stream_with.send"]
CONTROLS = {"control.Rc.send": False, "control.Rc.sync": False, "control.u8.send": True, "control.fold_async.send": False,
            # the caller's futures and error type are Send but deliberately NOT Sync
            "control.error_type.send": True, "control.error_type.sync": False,
            "control.user_future.send": True, "control.user_future.sync": False}


def send_sync_errors(stderr):
    """E0277-style diagnostics that name Send / Sync."""
    hits = []
    for m in re.finditer(r"error(\[E0277\])?: [^\n]*\n(?:[^\n]*\n){0,25}", stderr):
        block = m.group(0)
        if re.search(r"cannot be (sent|shared) between threads safely|`Send`|`Sync`", block):
            hits.append(block[:2500])
    return hits


def run(check, tier, seed, jobs, evid_path):
    t0 = time.time()
    violations = []
    inconclusive = []
    facts_all = {}
    samples = []
    checked = 0
    for cfg in ("A", "B"):
        # for C19 itself the Send-requiring workloads must compile: no fallback
        ok, err = check.cargo_build(cfg, bins=("fgv_probe", "fgv_san"), allow_no_mt=False)
        if not ok and send_sync_errors(err):
            # still run the probe (it never requires Send) to name the values that lost the trait
            okp, _ = check.cargo_build(cfg, bins=("fgv_probe",))
            if okp:
                pp = subprocess.run([check.bin_path(cfg, "fgv_probe")], cwd=check.VERIF, env=check.ENV, stdout=subprocess.PIPE, stderr=subprocess.PIPE, text=True)
                try:
                    facts_all[cfg] = json.loads(pp.stdout.strip().splitlines()[-1])["facts"]
                    for k in (EXPECT_TRUE_A if cfg == "A" else EXPECT_TRUE_B):
                        if k in facts_all[cfg] and not facts_all[cfg][k]:
                            what, trait = k.rsplit(".", 1)
                            violations.append({"prop": "C19", "kind": f"not-{trait}", "detail": f"configuration {cfg}: `{what}` is not {trait.capitalize()}", "case": f"cfg={cfg}|fact={k}", "log": ""})
                except Exception:  # noqa
                    pass
        if not ok:
            hits = send_sync_errors(err)
            if hits:
                violations.append({"prop": "C19", "kind": "does-not-compile-send-sync", "detail": f"configuration {cfg}: the workload that moves the returned values across threads does not compile:\n{hits[0]}", "case": f"cfg={cfg}", "log": ""})
            else:
                inconclusive.append(f"config {cfg}: harness build failed: {err[-1500:]}")
            continue
        p = subprocess.run([check.bin_path(cfg, "fgv_probe")], cwd=check.VERIF, env=check.ENV, stdout=subprocess.PIPE, stderr=subprocess.PIPE, text=True)
        try:
            facts = json.loads(p.stdout.strip().splitlines()[-1])["facts"]
        except Exception as e:  # noqa
            inconclusive.append(f"config {cfg}: probe output unreadable ({e}): {p.stdout[-300:]} {p.stderr[-300:]}")
            continue
        facts_all[cfg] = facts
        for k, want in CONTROLS.items():
            if k in facts:
                checked += 1
                if facts[k] != want:
                    inconclusive.append(f"config {cfg}: probe control {k} reads {facts[k]}, expected {want}: the probe cannot be trusted")
        for k in (EXPECT_TRUE_A if cfg == "A" else EXPECT_TRUE_B):
            checked += 1
            if k not in facts:
                inconclusive.append(f"config {cfg}: probe did not report {k}")
            elif not facts[k]:
                what, trait = k.rsplit(".", 1)
                violations.append({"prop": "C19", "kind": f"not-{trait}", "detail": f"configuration {cfg} ({'default features' if cfg == 'A' else 'interruptible'}): the value returned by / type `{what}` is not {trait.capitalize()} for F: Send + Sync and Send user futures", "case": f"cfg={cfg}|fact={k}", "log": ""})
        samples.append({"config": cfg, "facts": facts})
        # second probe: F is Send + Sync but NOT 'static (borrows from the caller's stack); every
        # returned value is really moved to a scoped thread and driven / dropped there
        okb, errb = check.cargo_build(cfg, bins=("fgv_probe_borrow",), allow_no_mt=False)
        if okb:
            try:
                pb = subprocess.run([check.bin_path(cfg, "fgv_probe_borrow")], cwd=check.VERIF, env=check.ENV, stdout=subprocess.PIPE, stderr=subprocess.PIPE, text=True, timeout=240)
                mb = re.search(r"BORROW-PROBE ok mode=other-threads config=\S+ runs=(\d+)", pb.stdout)
                if mb:
                    checked += int(mb.group(1))
                    samples.append({"config": cfg, "borrowing_F_values_moved_to_other_threads": int(mb.group(1))})
                else:
                    inconclusive.append(f"config {cfg}: borrowing-F probe did not finish: rc={pb.returncode} {pb.stdout[-300:]} {pb.stderr[-600:]}")
            except subprocess.TimeoutExpired:
                inconclusive.append(f"config {cfg}: borrowing-F probe did not finish within the 240 s watchdog")
        else:
            # does the same code compile when nothing is moved to another thread (no Send demanded)?
            okn, errn = check.cargo_build(cfg, bins=("fgv_probe_borrow",), features_extra=["probe_nosend"], variant="-nosend", allow_no_mt=False)
            first = re.search(r"error(\[E\d+\])?: [^\n]*\n(?:[^\n]*\n){0,30}", errb)
            msg = first.group(0)[:2500] if first else errb[-1500:]
            if okn:
                violations.append({"prop": "C19", "kind": "send-only-for-static-F", "detail": f"configuration {cfg}: with a function type that is Send + Sync but borrows from the caller (not 'static), the code that moves the returned values to another thread does not compile, while the same code run on the calling thread (no Send demanded) does:\n{msg}", "case": f"cfg={cfg}|probe=borrow", "log": ""})
            else:
                inconclusive.append(f"config {cfg}: borrowing-F probe compiles neither with nor without the Send requirement (not a Send question): {msg[:800]}")
        # in-family part, short native run: really move the values across threads
        for mode, iters in (("tokio", 20 if tier == "quick" else 200), ("threads", 10 if tier == "quick" else 60), ("xthread", 40 if tier == "quick" else 400)):
            try:
                q = subprocess.run([check.bin_path(cfg, "fgv_san"), "--mode", mode, "--seed", str(seed), "--iters", str(iters), "--max-n", "7"], cwd=check.VERIF, env=check.ENV, stdout=subprocess.PIPE, stderr=subprocess.PIPE, text=True, timeout=240)
            except subprocess.TimeoutExpired:
                # a hang of the threaded workload is some other property's business (C04/C05); here it only means "not decided"
                inconclusive.append(f"config {cfg}: threaded workload {mode} did not finish within the 240 s watchdog")
                continue
            m = re.search(r"SAN-SUMMARY .*executions=(\d+)", q.stdout)
            if not m:
                inconclusive.append(f"config {cfg}: threaded workload {mode} printed no summary: {q.stdout[-300:]} {q.stderr[-300:]}")
                continue
            samples.append({"config": cfg, "threaded_workload": mode, "executions": int(m.group(1))})
            for line in q.stdout.splitlines():
                mm = re.match(r"SAN-VIOLATION property=(\S+) kind=(\S+) detail=(.*)", line)
                if mm and mm.group(1) == "C19":
                    violations.append({"prop": "C19", "kind": mm.group(2), "detail": mm.group(3), "case": f"cfg={cfg}|mode={mode}", "log": ""})
    san = None
    if tier == "thorough":
        import importlib.util
        spec = importlib.util.spec_from_file_location("sanitize", os.path.join(check.VERIF, "lib", "sanitize.py"))
        mod = importlib.util.module_from_spec(spec)
        spec.loader.exec_module(mod)
        san = mod.run(check, "C19", seed, jobs)
        for v in san["violations"]:
            violations.append(v)
        inconclusive += san["inconclusive"]

    explanation = (
        "Part 1 (typing fact, not execution monitoring): fgv_probe asks the trait solver, via autoref specialisation, whether the actual values returned by the real API "
        "(FnGraph<F>, FnRef, stream(), stream_with(), the 12 for_each_concurrent*/try_for_each_concurrent* futures) are Send/Sync, for F = a plain Send+Sync struct and Send user futures, "
        "in configuration A (default features) and B (interruptible); negative controls (Rc, the fold_async future) must read false. "
        "Part 2 (in-family): the values are moved across threads for real - runs awaited inside tokio::spawn on a multi-thread runtime over an Arc<FnGraph>, FnRefs dropped on other threads, "
        "several threads each driving runs on one &FnGraph, and a stream handed from thread to thread between polls (polled to Pending on thread A, again on thread B with B's own waker, an FnRef dropped on thread C: B's waker must have been signalled if a further poll finds anything) - natively in the quick tier and under ThreadSanitizer and Miri in the thorough tier; a data race or an E0277 Send/Sync compile error of that workload is the violation. "
        "A second probe repeats the moves with a function type that is Send + Sync but NOT 'static (it borrows a counter from the caller's stack) and StreamOpts values built elsewhere and moved in; "
        "it is built with and without the Send requirement, so that a compile failure that only the Send requirement causes is reported as the violation. "
        "Limit: a handful of F and future types, not every F."
    )
    coverage = {
        "explanation": explanation,
        "evaluations": checked,
        "distinct_nontrivial": sum(len(f) for f in facts_all.values()),
        "rule": "one evaluation = one (configuration, returned value, auto trait) fact compared with the property's table; all distinct",
        "samples": samples,
        "facts": facts_all,
        "inconclusive": inconclusive,
    }
    if san:
        coverage["sanitizers"] = san["summary"]
        coverage["sanitizer_reports"] = san["reports"]
    evidence = {
        "property_id": "C19",
        "tier": tier,
        "seed": seed,
        "level": "other",
        "coverage": coverage,
        "assumptions": [
            "rustc's trait solver (the probe reads its answer; it does not re-derive it)",
            "F = harness TFn (plain data, Send + Sync) and a borrowing Bump<'a> (Send + Sync, not 'static); user futures and error types are Send but not Sync",
            "ThreadSanitizer / Miri observe only the interleavings the workload produced",
        ],
        "wall_s": round(time.time() - t0, 2),
        "violations": len(violations),
    }
    with open(evid_path, "w") as f:
        json.dump(evidence, f, indent=1)
    known = check.load_known()
    new = []
    for v in violations:
        k = check.known_match(v, known)
        if k is not None:
            print(f"KNOWN-FINDING: property=C19 {k.get('what', v['kind'])}")
        else:
            new.append(v)
    if new:
        for i, v in enumerate(new[:8]):
            path = check.write_replay("C19", v.get("config", "probe"), v, i)
            print(f"VIOLATION property=C19 replay={path}")
            print(f"  {v['kind']}: {v['detail'][:600]}")
        return 1
    if inconclusive:
        for m in inconclusive[:10]:
            print(f"INCONCLUSIVE property=C19 reason={m}")
        return 2
    if san and san.get("needs_triage"):
        for r in san["reports"][:10]:
            print(f"SANITIZER-REPORT property=C19 {r}")
        return 2
    print(f"OK property=C19 tier={tier} seed={seed} facts_checked={checked} wall_s={evidence['wall_s']}")
    return 0
