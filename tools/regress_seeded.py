#!/usr/bin/env python3
"""Runs every kept seeded change against the quick check of the property it breaks and reports
which fire. Usage: tools/regress_seeded.py [--all-props]"""
import glob, json, os, subprocess, sys
VERIF = os.path.dirname(os.path.dirname(os.path.abspath(__file__)))
missed = []
metas = sorted(glob.glob(os.path.join(VERIF, "seeded", "C*", "meta.json")))
# REGRESS_SHARD=i/n runs every n-th change starting at i (several scratch worktrees in parallel)
if os.environ.get("REGRESS_SHARD"):
    i, n = (int(x) for x in os.environ["REGRESS_SHARD"].split("/"))
    metas = metas[i::n]
for meta in metas:
    m = json.load(open(meta))
    d = os.path.dirname(meta)
    prop = m["breaks_property"]
    props = "all" if "--all-props" in sys.argv else prop
    # two kept changes are caught by neighbouring properties only (see their meta.json first_result)
    neighbours = [] if m.get("target_property_check_fires", True) else m.get("quick_checks_that_fire", [])
    if neighbours and props != "all":
        props = ",".join([prop] + neighbours)
    p = subprocess.run([os.path.join(VERIF, "tools", "try_patch.py"), os.path.join(d, "patch.diff"), "--props", props], stdout=subprocess.PIPE, stderr=subprocess.STDOUT, text=True, env=os.environ)
    last = [l for l in p.stdout.splitlines() if l.startswith("{")]
    fired = json.loads(last[-1])["fired"] if last else []
    ok = prop in fired or any(x in fired for x in neighbours)
    print(f"{m['id']}: target {prop} {'FIRES' if prop in fired else ('not fired (recorded); caught by neighbours' if ok else 'MISSED')}; fired={fired}")
    if not ok:
        missed.append(m["id"])
print("missed:", missed or "-")
sys.exit(1 if missed else 0)
