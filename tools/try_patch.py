#!/usr/bin/env python3
"""Applies a patch to /repo, runs checks, reverts. Used to validate the monitors against seeded
breakage (never commits anything in /repo).

  tools/try_patch.py <patch.diff> [--props C01,C05|all] [--tier quick|thorough]
"""
import json
import os
import subprocess
import sys
import time

VERIF = os.path.dirname(os.path.dirname(os.path.abspath(__file__)))
ALL = [f"C{i:02d}" for i in range(1, 21)]


def isolated_run(patch, props, tier, wt):
    """Development mode: the patch is applied in a scratch worktree `wt` (created if missing, reset
    if present) and the checks run against it through VERIF_REPO; /repo and /verif/evidence are
    not touched. The official validation path is the /repo one above."""
    if not os.path.isdir(wt):
        subprocess.run(["git", "-C", "/repo", "worktree", "add", "--detach", "-q", wt, "HEAD"], check=True)
        subprocess.run(["cp", "/repo/Cargo.lock", wt])
    subprocess.run(["git", "-C", wt, "checkout", "-q", "--", "."])
    subprocess.run(["git", "-C", wt, "clean", "-fdq", "--", "src"])
    if subprocess.run(["git", "-C", wt, "apply", patch]).returncode != 0:
        print("patch does not apply")
        return 2
    env = dict(os.environ)
    env["VERIF_REPO"] = wt
    results = {}
    for p in props:
        t0 = time.time()
        q = subprocess.run([os.path.join(VERIF, "check"), "run", p, "--tier", tier], cwd=VERIF, env=env, stdout=subprocess.PIPE, stderr=subprocess.PIPE, text=True)
        results[p] = q.returncode
        flag = {0: "silent", 1: "FIRES", 2: "inconclusive"}.get(q.returncode, str(q.returncode))
        print(f"{p}: {flag} ({round(time.time() - t0, 1)}s)")
        for l in [l for l in q.stdout.splitlines() if l.startswith(("VIOLATION", "INCONCLUSIVE", "  ["))][:3]:
            print("     " + l[:260])
    subprocess.run(["git", "-C", wt, "checkout", "-q", "--", "."])
    subprocess.run(["git", "-C", wt, "clean", "-fdq", "--", "src"])
    fired = [p for p, r in results.items() if r == 1]
    print("fired:", ",".join(fired) or "-")
    print(json.dumps({"patch": patch, "tier": tier, "fired": fired, "inconclusive": [p for p, r in results.items() if r == 2]}))
    return 0


def main():
    patch = os.path.abspath(sys.argv[1])
    props = ALL
    tier = "quick"
    a = sys.argv[2:]
    while a:
        if a[0] == "--props":
            props = ALL if a[1] == "all" else a[1].split(",")
            a = a[2:]
        elif a[0] == "--tier":
            tier = a[1]
            a = a[2:]
        else:
            a = a[1:]
    isolated = os.environ.get("TRY_PATCH_WORKTREE", "")
    if isolated:
        return isolated_run(patch, props, tier, isolated)
    st = subprocess.run(["git", "-C", "/repo", "status", "--porcelain", "--untracked-files=no"], stdout=subprocess.PIPE, text=True).stdout.strip()
    if st:
        print("refusing: /repo has uncommitted changes:\n" + st)
        return 2
    r = subprocess.run(["git", "-C", "/repo", "apply", patch])
    if r.returncode != 0:
        print("patch does not apply")
        return 2
    results = {}
    # evidence / replays written while the patch is applied describe the patched tree: keep the
    # committed ones aside and put them back afterwards
    import shutil, tempfile
    keep = tempfile.mkdtemp(prefix="evid_keep_")
    for d in ("evidence", "replays"):
        if os.path.isdir(os.path.join(VERIF, d)):
            shutil.copytree(os.path.join(VERIF, d), os.path.join(keep, d))
    try:
        for p in props:
            t0 = time.time()
            q = subprocess.run([os.path.join(VERIF, "check"), "run", p, "--tier", tier], cwd=VERIF, stdout=subprocess.PIPE, stderr=subprocess.PIPE, text=True)
            lines = [l for l in q.stdout.splitlines() if l.startswith(("VIOLATION", "INCONCLUSIVE", "KNOWN-FINDING", "SANITIZER-REPORT", "  ["))]
            results[p] = {"rc": q.returncode, "lines": lines[:4], "s": round(time.time() - t0, 1)}
            flag = {0: "silent", 1: "FIRES", 2: "inconclusive"}.get(q.returncode, str(q.returncode))
            print(f"{p}: {flag} ({results[p]['s']}s)")
            for l in lines[:3]:
                print("     " + l[:260])
    finally:
        subprocess.run(["git", "-C", "/repo", "checkout", "--", "."])
        # patches may add new files under src/
        subprocess.run(["git", "-C", "/repo", "clean", "-fdq", "--", "src"])
        for d in ("evidence", "replays"):
            shutil.rmtree(os.path.join(VERIF, d), ignore_errors=True)
            if os.path.isdir(os.path.join(keep, d)):
                shutil.copytree(os.path.join(keep, d), os.path.join(VERIF, d))
        shutil.rmtree(keep, ignore_errors=True)
        # restore evidence of the unchanged tree is the caller's business (re-run the checks)
    fired = [p for p, r in results.items() if r["rc"] == 1]
    print("fired:", ",".join(fired) or "-")
    print(json.dumps({"patch": patch, "tier": tier, "fired": fired, "inconclusive": [p for p, r in results.items() if r["rc"] == 2]}))
    return 0


if __name__ == "__main__":
    sys.exit(main())
