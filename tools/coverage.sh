#!/bin/bash
# Line coverage of /repo/src reached by the quick-tier workloads of all properties (configuration B,
# plus A for the non-interruptible shapes). Development aid: shows which library code no monitor drives.
set -e
cd /verif/harness
LLVM=~/.rustup/toolchains/nightly-x86_64-unknown-linux-gnu/lib/rustlib/x86_64-unknown-linux-gnu/bin
OUT=/verif/target/cov
rm -rf $OUT/prof; mkdir -p $OUT/prof
for cfg in a b; do
  F=""; [ $cfg = b ] && F="--features b"
  CARGO_TARGET_DIR=$OUT/$cfg RUSTFLAGS="-Cinstrument-coverage" cargo +nightly build --release --offline $F --bin fgv --bin fgv_probe --bin fgv_san 2>&1 | grep -E "^error" -A8 || true
  for p in C01 C02 C03 C04 C05 C06 C07 C08 C09 C10 C11 C12 C13 C14 C15 C16 C17 C18 C20; do
    LLVM_PROFILE_FILE="$OUT/prof/$cfg-$p-%p.profraw" $OUT/$cfg/release/fgv --prop $p --tier quick --seed 1 --scale 0.1 --jobs 8 --out /dev/null >/dev/null 2>&1 || true
  done
  LLVM_PROFILE_FILE="$OUT/prof/$cfg-probe-%p.profraw" $OUT/$cfg/release/fgv_probe >/dev/null 2>&1 || true
  for m in director xthread threads tokio runtime; do
    LLVM_PROFILE_FILE="$OUT/prof/$cfg-san-$m-%p.profraw" $OUT/$cfg/release/fgv_san --mode $m --iters 5 --seed 1 >/dev/null 2>&1 || true
  done
done
$LLVM/llvm-profdata merge -sparse $OUT/prof/*.profraw -o $OUT/all.profdata
$LLVM/llvm-cov report -instr-profile=$OUT/all.profdata $OUT/b/release/fgv -object $OUT/a/release/fgv -object $OUT/b/release/fgv_san -object $OUT/a/release/fgv_san -object $OUT/b/release/fgv_probe --ignore-filename-regex='(registry|rustc|harness)' 2>/dev/null | tee $OUT/report.txt
$LLVM/llvm-cov show -instr-profile=$OUT/all.profdata $OUT/b/release/fgv -object $OUT/a/release/fgv -object $OUT/b/release/fgv_san -object $OUT/a/release/fgv_san -object $OUT/b/release/fgv_probe --ignore-filename-regex='(registry|rustc|harness)' --show-line-counts-or-regions 2>/dev/null > $OUT/show.txt
echo "annotated source: $OUT/show.txt"
