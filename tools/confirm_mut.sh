#!/bin/bash
# Confirms a sub-agent's seeded change in ITS scratch worktree: pinned tests pass with the change,
# the demonstration fails with it and passes without it.
# usage: confirm_mut.sh /tmp/mut/C01 [extra cargo feature args for the demo]
set -u
W=$1; shift
FEAT="$*"
export CARGO_TARGET_DIR=$W/target CARGO_NET_OFFLINE=true
cd $W || exit 2
demo=$(ls tests/ | grep -E '^demo' | head -1 | sed 's/\.rs$//')
echo "worktree=$W demo=$demo feat='$FEAT'"
git diff -- src > /tmp/confirm_$$.diff
if ! cmp -s /tmp/confirm_$$.diff _out/patch.diff; then echo "NOTE: worktree src diff differs from _out/patch.diff; using _out/patch.diff"; git checkout -- src; git apply _out/patch.diff || { echo "patch does not apply"; exit 2; }; fi
echo "--- with change: pinned lib tests"
cargo test --offline --lib 2>&1 | grep -E "^test result" | head -2
echo "--- with change: full-feature lib tests"
cargo test --offline --lib --features "fn_meta resman interruptible graph_info" 2>&1 | grep -E "^test result" | head -2
echo "--- with change: demo (expect failure)"
timeout 600 cargo test --offline $FEAT --test $demo 2>&1 | grep -E "^test result|error(\[|:)" | head -3
git apply -R _out/patch.diff || { echo "cannot revert"; exit 2; }
echo "--- without change: demo (expect pass)"
timeout 600 cargo test --offline $FEAT --test $demo 2>&1 | grep -E "^test result|error(\[|:)" | head -3
git apply _out/patch.diff
rm -f /tmp/confirm_$$.diff
