#!/bin/bash
# usage: eval_round.sh <base dir> <Cxx> [demo feature args]
base=$1; c=$2; shift 2
echo "######## $c"
/verif/tools/confirm_mut.sh $base/$c "$@" 2>&1 | grep -E "test result|NOTE|error" | sed 's/; 0 ignored.*//' | tr '\n' ';'; echo
cd /verif && tools/try_patch.py $base/$c/_out/patch.diff --props all 2>&1 | grep -E "^fired|\"inconclusive\": \[\""
