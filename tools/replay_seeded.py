#!/usr/bin/env python3
"""For every kept seeded change: apply it, run the target property's quick check, re-execute the
first replay file it wrote (must reproduce: exit 1), revert, re-execute the same replay on the
unchanged tree (must pass: exit 0)."""
import glob, json, os, re, shutil, subprocess, sys, tempfile
VERIF = os.path.dirname(os.path.dirname(os.path.abspath(__file__)))
bad = []
only = sys.argv[1:]
for meta in sorted(glob.glob(os.path.join(VERIF, "seeded", "C*", "meta.json"))):
    m = json.load(open(meta)); d = os.path.dirname(meta); prop = m["breaks_property"]
    if only and prop not in only:
        continue
    keep = tempfile.mkdtemp(prefix="evid_keep_")
    shutil.copytree(os.path.join(VERIF, "evidence"), os.path.join(keep, "evidence"))
    shutil.rmtree(os.path.join(VERIF, "replays"), ignore_errors=True)
    subprocess.run(["git", "-C", "/repo", "apply", os.path.join(d, "patch.diff")], check=True)
    try:
        q = subprocess.run([os.path.join(VERIF, "check"), "run", prop, "--tier", "quick"], cwd=VERIF, stdout=subprocess.PIPE, stderr=subprocess.PIPE, text=True)
        mm = re.search(r"VIOLATION property=\S+ replay=(\S+)", q.stdout)
        if not mm:
            print(f"{m['id']}: no VIOLATION line (rc={q.returncode})"); bad.append(m['id']); continue
        rp = mm.group(1)
        saved = os.path.join(keep, "replay.json"); shutil.copy(rp, saved)
        r1 = subprocess.run([os.path.join(VERIF, "check"), "replay", saved], cwd=VERIF, stdout=subprocess.PIPE, stderr=subprocess.PIPE, text=True)
    finally:
        subprocess.run(["git", "-C", "/repo", "checkout", "--", "."]); subprocess.run(["git", "-C", "/repo", "clean", "-fdq", "--", "src"])
    r0 = subprocess.run([os.path.join(VERIF, "check"), "replay", saved], cwd=VERIF, stdout=subprocess.PIPE, stderr=subprocess.PIPE, text=True)
    ok = r1.returncode == 1 and r0.returncode == 0
    print(f"{m['id']}: replay with change rc={r1.returncode} (want 1), on unchanged tree rc={r0.returncode} (want 0) {'OK' if ok else 'MISMATCH'}")
    if not ok:
        bad.append(m['id'])
        print("   with change:", r1.stdout[-400:].replace("\n", " | "))
        print("   unchanged:", r0.stdout[-400:].replace("\n", " | "))
    shutil.rmtree(os.path.join(VERIF, "evidence")); shutil.copytree(os.path.join(keep, "evidence"), os.path.join(VERIF, "evidence"))
    shutil.rmtree(os.path.join(VERIF, "replays"), ignore_errors=True); shutil.rmtree(keep, ignore_errors=True)
print("bad:", bad or "-")
