//! Real-thread and real-runtime workloads (plain execution, Miri, ThreadSanitizer).
//!
//! No verdict here depends on wall-clock time: stalls and deadlocks are decided logically (all
//! wake sources accounted for), ordering violations only when one event *returned before* the
//! other *was called* on a global atomic clock.

use std::future::Future;
use std::pin::Pin;
use std::sync::atomic::{AtomicBool, AtomicU64, AtomicUsize, Ordering};
use std::sync::{mpsc, Arc, Mutex};
use std::task::{Context, Poll, Wake, Waker};
use std::thread::{self, Thread};
use std::time::Duration;

use fn_graph::{FnGraph, FnRef};
use futures::stream::{Stream, StreamExt};

use crate::apis::{sig_channel, start_call, GraphRef};
use crate::choice::{mix, Rng, Tape};
use crate::director::{CallDriver, GateSt, RunState, Shared, StreamDriver, Term};
use crate::exec::Trace;
use crate::gen::{self, apis_where, GraphProfile, RunProfile};
use crate::model::{GraphSpec, UserGraph};
use crate::oracles::{self, Ctx, Violation};
use crate::spec::{Api, Mode, RunSpec};
use crate::tfn::{self, TFn};

pub struct ParkWaker {
    thread: Thread,
    pub flag: AtomicBool,
}

impl ParkWaker {
    pub fn new() -> Arc<ParkWaker> {
        Arc::new(ParkWaker { thread: thread::current(), flag: AtomicBool::new(false) })
    }
}

impl Wake for ParkWaker {
    fn wake(self: Arc<Self>) {
        self.wake_by_ref()
    }
    fn wake_by_ref(self: &Arc<Self>) {
        self.flag.store(true, Ordering::SeqCst);
        self.thread.unpark();
    }
}

fn v(prop: &'static str, kind: &'static str, detail: String) -> Violation {
    Violation { prop, kind, detail }
}

#[derive(Clone, Copy, Debug)]
enum XEv {
    /// poll_next returned an FnRef for f (recorded after the poll returned)
    Yield(u32, u64),
    /// drop of f's FnRef is about to be called
    DropCall(u32, u64),
    DropRet(u32, u64),
}

#[derive(Default, Debug, Clone)]
pub struct XStats {
    pub yields: u64,
    pub cross_thread_drops: u64,
    pub parks: u64,
    pub runs: u64,
    pub early_drops: u64,
}

/// `stream()` consumed on one thread, FnRefs dropped on `workers` other threads.
/// Returns violations of C05 (stall / early end / panic) and of the ordering guarantees as seen
/// across threads (reported under C05's cross-thread clause; C01/C02 use the director).
/// build() panicking is C11's business: every other workload skips such a graph.
pub fn try_build(gs: &GraphSpec) -> Option<FnGraph<TFn>> {
    tfn::guarded(gs.n, || std::panic::catch_unwind(std::panic::AssertUnwindSafe(|| tfn::build(gs)))).ok()
}

#[cfg(not(feature = "mt"))]
pub fn xthread_stream(_gs: &GraphSpec, _seed: u64, _workers: usize, _reverse: bool, _stats: &mut XStats) -> Vec<Violation> {
    Vec::new()
}

#[cfg(feature = "mt")]
pub fn xthread_stream(gs: &GraphSpec, seed: u64, workers: usize, reverse: bool, stats: &mut XStats) -> Vec<Violation> {
    let Some(g) = try_build(gs) else { return Vec::new() };
    let ug = UserGraph::from_spec(gs);
    let built = tfn::built_of(&g);
    let n = gs.n;
    let clock = AtomicU64::new(1);
    let acks = AtomicUsize::new(0);
    let drop_panics = AtomicUsize::new(0);
    let events: Mutex<Vec<XEv>> = Mutex::new(Vec::new());
    let mut out = Vec::new();
    let mut rng = Rng::new(seed);
    let mut shipped = 0usize;
    let mut yields = 0usize;
    let mut ended = false;
    let mut stalled = false;
    let mut dropped_early = false;
    let mut parks = 0u64;
    thread::scope(|s| {
        let mut txs: Vec<mpsc::Sender<(FnRef<'_, TFn>, u8)>> = Vec::new();
        for _ in 0..workers.max(1) {
            let (tx, rx) = mpsc::channel::<(FnRef<'_, TFn>, u8)>();
            txs.push(tx);
            let clock = &clock;
            let acks = &acks;
            let events = &events;
            let drop_panics = &drop_panics;
            s.spawn(move || {
                while let Ok((r, spins)) = rx.recv() {
                    for _ in 0..spins {
                        thread::yield_now();
                    }
                    let f = r.idx as u32;
                    let t1 = clock.fetch_add(1, Ordering::SeqCst);
                    if std::panic::catch_unwind(std::panic::AssertUnwindSafe(move || drop(r))).is_err() {
                        drop_panics.fetch_add(1, Ordering::SeqCst);
                    }
                    let t2 = clock.fetch_add(1, Ordering::SeqCst);
                    {
                        let mut e = events.lock().unwrap();
                        e.push(XEv::DropCall(f, t1));
                        e.push(XEv::DropRet(f, t2));
                    }
                    acks.fetch_add(1, Ordering::SeqCst);
                }
            });
        }
        let pw = ParkWaker::new();
        let waker = Waker::from(pw.clone());
        let mut cx = Context::from_waker(&waker);
        let mut stream = Box::pin(if reverse { g.stream_with(fn_graph::StreamOpts::new().rev()).left_stream() } else { g.stream().right_stream() });
        let mut local: Vec<FnRef<'_, TFn>> = Vec::new();
        // one run in four: the consumer gives up early and drops the stream while FnRefs are
        // still being dropped on the other threads ("dropping FnRefs or the stream in any order")
        let give_up_after = if rng.chance(1, 4) { Some(rng.below(n.max(1))) } else { None };
        loop {
            if Some(yields) == give_up_after {
                dropped_early = true;
                break;
            }
            pw.flag.store(false, Ordering::SeqCst);
            match stream.as_mut().poll_next(&mut cx) {
                Poll::Ready(Some(r)) => {
                    let t = clock.fetch_add(1, Ordering::SeqCst);
                    events.lock().unwrap().push(XEv::Yield(r.idx as u32, t));
                    yields += 1;
                    if rng.chance(1, 5) {
                        // keep a few on the consumer thread, dropped when it would otherwise idle
                        local.push(r);
                    } else {
                        shipped += 1;
                        let w = rng.below(txs.len());
                        let _ = txs[w].send((r, rng.below(3) as u8));
                    }
                }
                Poll::Ready(None) => {
                    ended = true;
                    break;
                }
                Poll::Pending => {
                    loop {
                        if pw.flag.swap(false, Ordering::SeqCst) {
                            break;
                        }
                        if let Some(r) = local.pop() {
                            let f = r.idx as u32;
                            let t1 = clock.fetch_add(1, Ordering::SeqCst);
                            drop(r);
                            let t2 = clock.fetch_add(1, Ordering::SeqCst);
                            let mut e = events.lock().unwrap();
                            e.push(XEv::DropCall(f, t1));
                            e.push(XEv::DropRet(f, t2));
                            continue;
                        }
                        if acks.load(Ordering::SeqCst) == shipped {
                            // every FnRef handed out so far has been dropped and the drop returned
                            // (its wake-up, if any, happened before the ack): nobody is left to wake us
                            if !pw.flag.load(Ordering::SeqCst) {
                                stalled = true;
                                break;
                            }
                            continue;
                        }
                        parks += 1;
                        thread::park_timeout(Duration::from_millis(2));
                    }
                    if stalled {
                        break;
                    }
                }
            }
        }
        if std::panic::catch_unwind(std::panic::AssertUnwindSafe(move || drop(stream))).is_err() {
            drop_panics.fetch_add(1, Ordering::SeqCst);
        }
        if std::panic::catch_unwind(std::panic::AssertUnwindSafe(move || drop(local))).is_err() {
            drop_panics.fetch_add(1, Ordering::SeqCst);
        }
        drop(txs);
    });
    if drop_panics.load(Ordering::SeqCst) > 0 {
        out.push(v("C05", "panic-on-drop-cross-thread", format!("{} drop(s) of an FnRef / the stream panicked while FnRefs were dropped on other threads{}; graph {}", drop_panics.load(Ordering::SeqCst), if dropped_early { " and the stream was dropped early" } else { "" }, gs.encode())));
        return out;
    }
    if dropped_early {
        stats.early_drops += 1;
    }
    stats.yields += yields as u64;
    stats.cross_thread_drops += shipped as u64;
    stats.parks += parks;
    stats.runs += 1;
    if stalled {
        out.push(v("C05", "stall-cross-thread", format!("consumer pending, every FnRef handed out ({shipped} shipped to other threads) has been dropped, no wake-up signalled, {yields} of {n} yielded; graph {}", gs.encode())));
        return out;
    }
    if ended && !dropped_early && yields != n {
        out.push(v("C05", "none-before-all-yielded", format!("stream ended after {yields} of {n}; graph {}", gs.encode())));
    }
    // ordering as seen across threads
    let ev = events.into_inner().unwrap();
    let mut ty = vec![0u64; n];
    let mut tdc = vec![u64::MAX; n];
    for e in &ev {
        match *e {
            XEv::Yield(f, t) => ty[f as usize] = t,
            XEv::DropCall(f, t) => tdc[f as usize] = t,
            XEv::DropRet(..) => {}
        }
    }
    let preds = if reverse { &ug.succ } else { &ug.pred };
    for w in 0..n {
        if ty[w] == 0 {
            continue;
        }
        for &p in &preds[w] {
            if ty[w] < tdc[p] {
                out.push(v("C05", "yield-before-predecessor-drop-cross-thread", format!("function {w} was yielded (t={}) before the drop of its dependency {p} was even called (t={}); graph {}", ty[w], tdc[p], gs.encode())));
                return out;
            }
        }
        for u in 0..w {
            if gs.conflict(u, w) && ty[u] != 0 && ty[w] < tdc[u] && ty[u] < tdc[w] {
                out.push(v("C05", "conflicting-in-flight-cross-thread", format!("conflicting functions {u} and {w} were both yielded before either FnRef drop was called; graph {}", gs.encode())));
                return out;
            }
        }
    }
    let _ = built;
    out
}

/// k threads, each running director-controlled cases of `&self` APIs on ONE shared graph value.
/// "Dropping FnRefs or the stream in any order never panics", with the two drops racing on
/// different threads: pull `n-1` FnRefs out of a stream over `n` independent functions, hand them
/// to a worker that drops them back to back, and drop the stream on this thread at the same moment.
#[cfg(feature = "mt")]
pub fn xthread_drop_race(n: usize, trials: usize, reverse: bool) -> (Vec<Violation>, u64) {
    use std::sync::Barrier;
    let gs = GraphSpec::new(n);
    let Some(g) = try_build(&gs) else { return (Vec::new(), 0) };
    let mut out = Vec::new();
    let mut races = 0u64;
    for trial in 0..trials {
        let pw = ParkWaker::new();
        let waker = Waker::from(pw.clone());
        let mut cx = Context::from_waker(&waker);
        let mut stream = Box::pin(if reverse { g.stream_with(fn_graph::StreamOpts::new().rev()).left_stream() } else { g.stream().right_stream() });
        let mut refs = Vec::with_capacity(n);
        while refs.len() + 1 < n {
            match stream.as_mut().poll_next(&mut cx) {
                Poll::Ready(Some(r)) => refs.push(r),
                _ => break,
            }
        }
        let barrier = Barrier::new(2);
        let panics = AtomicUsize::new(0);
        thread::scope(|s| {
            let (barrier, panics) = (&barrier, &panics);
            s.spawn(move || {
                barrier.wait();
                for r in refs {
                    if std::panic::catch_unwind(std::panic::AssertUnwindSafe(move || drop(r))).is_err() {
                        panics.fetch_add(1, Ordering::SeqCst);
                    }
                }
            });
            barrier.wait();
            // vary where in the worker's drop sequence the stream goes away
            for _ in 0..(trial % 7) * 20 {
                std::hint::spin_loop();
            }
            if std::panic::catch_unwind(std::panic::AssertUnwindSafe(move || drop(stream))).is_err() {
                panics.fetch_add(1, Ordering::SeqCst);
            }
        });
        races += 1;
        if panics.load(Ordering::SeqCst) > 0 {
            out.push(v("C05", "panic-on-drop-cross-thread", format!("{} panic(s) while {} FnRefs were dropped on another thread and the stream was dropped concurrently (trial {trial}, {} independent functions, {})", panics.load(Ordering::SeqCst), n - 1, n, if reverse { "reverse" } else { "forward" })));
            break;
        }
    }
    (out, races)
}

#[cfg(not(feature = "mt"))]
pub fn xthread_drop_race(_n: usize, _trials: usize, _reverse: bool) -> (Vec<Violation>, u64) {
    (Vec::new(), 0)
}

#[cfg(not(feature = "mt"))]
pub fn threads_directors(_gs: &GraphSpec, _seed: u64, _k: usize, _runs_per_thread: usize, _cfg_b: bool) -> (Vec<Violation>, u64) {
    (Vec::new(), 0)
}

#[cfg(feature = "mt")]
pub fn threads_directors(gs: &GraphSpec, seed: u64, k: usize, runs_per_thread: usize, cfg_b: bool) -> (Vec<Violation>, u64) {
    let Some(g) = try_build(gs) else { return (Vec::new(), 0) };
    let ug = UserGraph::from_spec(gs);
    let built = tfn::built_of(&g);
    let n = gs.n;
    let apis = apis_where(cfg_b, |a| !a.is_mut());
    let found: Mutex<Vec<Violation>> = Mutex::new(Vec::new());
    let execs = AtomicU64::new(0);
    let runs_done = AtomicUsize::new(0);
    let want_ranks = ug.ranks();
    // all threads start on the SAME instant on a graph value nobody has touched yet: the first
    // use of anything lazily initialised inside the graph happens on several threads at once
    let barrier = std::sync::Barrier::new(k + 1);
    thread::scope(|s| {
        // one more thread only calls read-only accessors on the same graph while the runs are in
        // progress; what it reads must always be the truth (C20: runs and readers share only
        // immutable data), and under TSan / Miri a lazily filled cache would show up as a race
        {
            let (g, built, found, runs_done, want_ranks, barrier) = (&g, &built, &found, &runs_done, &want_ranks, &barrier);
            s.spawn(move || {
                barrier.wait();
                let mut rounds = 0u32;
                while runs_done.load(Ordering::SeqCst) < k && rounds < 100_000 {
                    rounds += 1;
                    let order: Vec<usize> = g.iter().map(|f| f.idx).collect();
                    let order_rev: Vec<usize> = g.iter_rev().map(|f| f.idx).collect();
                    let ranks: Vec<usize> = g.ranks().iter().map(|r| r.0).collect();
                    let mut pos = vec![usize::MAX; n];
                    for (i, &f) in order.iter().enumerate() {
                        if f < n {
                            pos[f] = i;
                        }
                    }
                    let mut pos_rev = vec![usize::MAX; n];
                    for (i, &f) in order_rev.iter().enumerate() {
                        if f < n {
                            pos_rev[f] = i;
                        }
                    }
                    let ok = order.len() == n
                        && order_rev.len() == n
                        && pos.iter().all(|&p| p != usize::MAX)
                        && pos_rev.iter().all(|&p| p != usize::MAX)
                        && built.edges.iter().all(|&(a, b, _)| pos[a] < pos[b] && pos_rev[b] < pos_rev[a])
                        && ranks == *want_ranks
                        && g.iter_insertion().map(|f| f.idx).eq(0..n);
                    if !ok {
                        found.lock().unwrap().push(v("C20", "reader-saw-inconsistent-graph", format!("a thread reading the graph (iter / iter_rev / ranks / iter_insertion) while runs were in progress on other threads saw iter={order:?} iter_rev={order_rev:?} ranks={ranks:?}; g={}", gs.encode())));
                        return;
                    }
                    if rounds % 8 == 0 {
                        let c = g.clone();
                        if !(c == *g) {
                            found.lock().unwrap().push(v("C20", "reader-saw-inconsistent-graph", format!("clone() of the graph taken while runs were in progress compares unequal to it; g={}", gs.encode())));
                            return;
                        }
                    }
                    thread::yield_now();
                }
            });
        }
        for t in 0..k {
            let (g, ug, built, found, apis, execs, runs_done, barrier) = (&g, &ug, &built, &found, &apis, &execs, &runs_done, &barrier);
            s.spawn(move || {
                barrier.wait();
                let mut rng = Rng::new(mix(seed, t as u64));
                let mut prof = RunProfile::new(apis.clone());
                prof.fail_pct = 20;
                prof.intr_pct = 20;
                for r in 0..runs_per_thread {
                    let mut rs = gen::random_run(&mut rng, n, &prof, cfg_b);
                    if n > 40 {
                        // big graph (wide first-use window): keep each run short
                        rs.modes = vec![Mode::Ready; n];
                        rs.batch = true;
                        rs.greedy = rs.api.is_stream();
                    }
                    let mut tape = Tape::random(mix(seed ^ 77, (t * 1000 + r) as u64));
                    let tr = run_shared(g, &rs, &mut tape);
                    execs.fetch_add(1, Ordering::Relaxed);
                    let c = Ctx { gs, ug, built, rs: &rs };
                    let mut out = Vec::new();
                    oracles::all_single_run(&c, &tr, &mut out);
                    if !out.is_empty() {
                        let mut f = found.lock().unwrap();
                        for mut x in out {
                            x.detail = format!("[thread {t} run {r} of {} concurrent threads on one graph] {} | g={}|r={}|t={}", k, x.detail, gs.encode(), rs.encode(), tape.encode());
                            f.push(x);
                        }
                        runs_done.fetch_add(1, Ordering::SeqCst);
                        return;
                    }
                }
                runs_done.fetch_add(1, Ordering::SeqCst);
            });
        }
    });
    (found.into_inner().unwrap(), execs.load(Ordering::Relaxed))
}

/// Runs one case of a `&self` API on a shared graph.
pub fn run_shared(g: &FnGraph<TFn>, rs: &RunSpec, tape: &mut Tape) -> Trace {
    let n = g.graph.node_count();
    let (tx, rx) = sig_channel(rs);
    let sh = RunState::new(n, rs, tx);
    if rs.api.is_stream() {
        let stream = match std::panic::catch_unwind(std::panic::AssertUnwindSafe(|| crate::apis::start_stream(rs, g, rx))) {
            Ok(s) => s,
            Err(p) => {
                return Trace { term: Term::Panicked(format!("creating the stream: {}", crate::director::panic_msg(p))), result: None, log: vec![crate::director::Ev::Panic], quiescent: 0, polls: 0, runs_after: None };
            }
        };
        let mut d = StreamDriver::new(stream, sh.clone(), rs, tape);
        d.run(tape);
        let (term, polls, idle) = (d.term.clone().unwrap(), d.polls, d.idle_points);
        drop(d);
        let log = std::mem::take(&mut sh.borrow_mut().log);
        Trace { term, result: None, log, quiescent: idle, polls, runs_after: None }
    } else {
        let fut = start_call(rs, GraphRef::Shared(g), &sh, rx);
        let mut d = CallDriver::new(fut, sh.clone(), rs, n, tape);
        d.run(tape);
        let (term, result, q, polls) = (d.term.clone().unwrap(), d.result.take(), d.quiescent_points, d.polls);
        drop(d);
        let log = std::mem::take(&mut sh.borrow_mut().log);
        Trace { term, result, log, quiescent: q, polls, runs_after: None }
    }
}

// ---------------------------------------------------------------------------------- real runtime

struct CountWaker {
    inner: Waker,
    count: Arc<AtomicU64>,
}

impl Wake for CountWaker {
    fn wake(self: Arc<Self>) {
        self.wake_by_ref()
    }
    fn wake_by_ref(self: &Arc<Self>) {
        self.count.fetch_add(1, Ordering::SeqCst);
        self.inner.wake_by_ref();
    }
}

/// Wraps a call so that a hang inside a real runtime is decided logically: three consecutive
/// polls with "inner pending, no wake-up of the waker we handed down since the end of the
/// previous poll, no user future in flight" (deferred cooperative-budget wake-ups arrive between
/// polls, so one idle poll is not enough).
struct Monitored<'a, T> {
    inner: Pin<Box<dyn Future<Output = T> + 'a>>,
    sh: Shared,
    count: Arc<AtomicU64>,
    seen: u64,
    idle: u32,
    done: Arc<AtomicBool>,
    pub polls: u64,
}

impl<'a, T> Future for Monitored<'a, T> {
    type Output = Result<T, String>;
    fn poll(mut self: Pin<&mut Self>, cx: &mut Context<'_>) -> Poll<Self::Output> {
        let this = &mut *self;
        let w = Waker::from(Arc::new(CountWaker { inner: cx.waker().clone(), count: this.count.clone() }));
        let mut icx = Context::from_waker(&w);
        this.polls += 1;
        match this.inner.as_mut().poll(&mut icx) {
            Poll::Ready(v) => {
                this.done.store(true, Ordering::SeqCst);
                Poll::Ready(Ok(v))
            }
            Poll::Pending => {
                let now = this.count.load(Ordering::SeqCst);
                let in_flight = this.sh.borrow().insts.iter().filter(|i| i.state != GateSt::Done).count();
                if now == this.seen && in_flight == 0 {
                    this.idle += 1;
                } else {
                    this.idle = 0;
                }
                this.seen = now;
                if this.idle >= 3 {
                    this.done.store(true, Ordering::SeqCst);
                    return Poll::Ready(Err(format!("pending on {} consecutive polls with no wake-up and no user future in flight (poll #{})", this.idle, this.polls)));
                }
                Poll::Pending
            }
        }
    }
}

/// Runs one call-style case inside a real tokio current-thread runtime (cooperative budget
/// active). Gate modes must be Ready / SelfWake (there is no director to release Held gates).
pub fn runtime_case(g: &mut FnGraph<TFn>, rs: &RunSpec) -> Trace {
    let n = g.graph.node_count();
    let (tx, rx) = sig_channel(rs);
    let sh = RunState::new(n, rs, tx);
    if rs.signal == crate::spec::SignalPlan::BeforeCall {
        sh.borrow_mut().send_signal();
    }
    let is_mut = rs.api.is_mut();
    if is_mut {
        for f in g.iter_insertion_mut() {
            f.runs = 0;
        }
    }
    let rt = tokio::runtime::Builder::new_current_thread().build().expect("runtime");
    let (term, result, polls) = {
        let gr = if is_mut { GraphRef::Mut(&mut *g) } else { GraphRef::Shared(&*g) };
        let fut = start_call(rs, gr, &sh, rx);
        let done = Arc::new(AtomicBool::new(false));
        let mon = Monitored { inner: fut, sh: sh.clone(), count: Arc::new(AtomicU64::new(0)), seen: 0, idle: 0, done: done.clone(), polls: 0 };
        let ticker = async {
            while !done.load(Ordering::SeqCst) {
                tokio::task::yield_now().await;
            }
        };
        let r = std::panic::catch_unwind(std::panic::AssertUnwindSafe(|| rt.block_on(async { futures::join!(mon, ticker).0 })));
        match r {
            Ok(Ok(v)) => (Term::Returned, Some(v), 0),
            Ok(Err(_m)) => (Term::Deadlock, None, 0),
            Err(p) => (Term::Panicked(crate::director::panic_msg(p)), None, 0),
        }
    };
    let runs_after = is_mut.then(|| g.iter_insertion().map(|f| f.runs).collect());
    let mut log = std::mem::take(&mut sh.borrow_mut().log);
    if term == Term::Returned {
        log.push(crate::director::Ev::Ready);
    }
    Trace { term, result, log, quiescent: 0, polls, runs_after }
}

/// Consumes one of the `stream*()` entry points inside a real tokio current-thread runtime,
/// holding at most `hold` FnRefs at a time (0 = drop each one before asking for the next, which
/// never yields to the runtime and therefore exhausts tokio's cooperative budget on wide graphs).
/// A stall is decided logically: 3 consecutive polls with "stream pending, nothing held, no
/// wake-up through the waker we handed down".
pub fn runtime_stream_case(g: &FnGraph<TFn>, rs: &RunSpec, hold: usize) -> Trace {
    use crate::director::{Ev, SItem};
    let (tx, rx) = sig_channel(rs);
    let n = g.graph.node_count();
    let sh = RunState::new(n, rs, tx);
    if rs.signal == crate::spec::SignalPlan::BeforeCall {
        sh.borrow_mut().send_signal();
    }
    let rt = tokio::runtime::Builder::new_current_thread().build().expect("runtime");
    let stream = match std::panic::catch_unwind(std::panic::AssertUnwindSafe(|| crate::apis::start_stream(rs, g, rx))) {
        Ok(s) => s,
        Err(p) => {
            return Trace { term: Term::Panicked(format!("creating the stream: {}", crate::director::panic_msg(p))), result: None, log: vec![Ev::Panic], quiescent: 0, polls: 0, runs_after: None };
        }
    };
    struct Consumer<'g> {
        stream: Option<crate::director::BoxStream<'g>>,
        held: std::collections::VecDeque<(u32, FnRef<'g, TFn>)>,
        hold: usize,
        count: Arc<AtomicU64>,
        seen: u64,
        idle: u32,
        sh: Shared,
        done: Arc<AtomicBool>,
    }
    impl<'g> Future for Consumer<'g> {
        type Output = Result<(), String>;
        fn poll(mut self: Pin<&mut Self>, cx: &mut Context<'_>) -> Poll<Self::Output> {
            let this = &mut *self;
            let w = Waker::from(Arc::new(CountWaker { inner: cx.waker().clone(), count: this.count.clone() }));
            let mut icx = Context::from_waker(&w);
            loop {
                this.sh.borrow_mut().log.push(Ev::Poll);
                match this.stream.as_mut().unwrap().as_mut().poll_next(&mut icx) {
                    Poll::Ready(Some(item)) => {
                        this.idle = 0;
                        match item {
                            SItem::Plain(r) => {
                                let f = r.idx as u32;
                                this.sh.borrow_mut().log.push(Ev::Yield(f));
                                this.held.push_back((f, r));
                            }
                            SItem::IntrSome(r) => {
                                let f = r.idx as u32;
                                this.sh.borrow_mut().log.push(Ev::YieldIntr(f));
                                this.held.push_back((f, r));
                            }
                            SItem::IntrNone => this.sh.borrow_mut().log.push(Ev::IntrNone),
                        }
                        while this.held.len() > this.hold {
                            let (f, r) = this.held.pop_front().unwrap();
                            drop(r);
                            this.sh.borrow_mut().log.push(Ev::RefDrop(f, true));
                        }
                    }
                    Poll::Ready(None) => {
                        this.sh.borrow_mut().log.push(Ev::StreamNone);
                        while let Some((f, r)) = this.held.pop_front() {
                            drop(r);
                            this.sh.borrow_mut().log.push(Ev::RefDrop(f, true));
                        }
                        this.stream = None;
                        this.done.store(true, Ordering::SeqCst);
                        return Poll::Ready(Ok(()));
                    }
                    Poll::Pending => {
                        this.sh.borrow_mut().log.push(Ev::Pending { woken: true });
                        if let Some((f, r)) = this.held.pop_front() {
                            drop(r);
                            this.sh.borrow_mut().log.push(Ev::RefDrop(f, true));
                            this.idle = 0;
                            continue;
                        }
                        let now = this.count.load(Ordering::SeqCst);
                        if now == this.seen {
                            this.idle += 1;
                        } else {
                            this.idle = 0;
                        }
                        this.seen = now;
                        if this.idle >= 3 {
                            this.done.store(true, Ordering::SeqCst);
                            return Poll::Ready(Err("stream pending on 3 consecutive polls with nothing held and no wake-up".into()));
                        }
                        return Poll::Pending;
                    }
                }
            }
        }
    }
    let done = Arc::new(AtomicBool::new(false));
    let cons = Consumer { stream: Some(stream), held: Default::default(), hold, count: Arc::new(AtomicU64::new(0)), seen: 0, idle: 0, sh: sh.clone(), done: done.clone() };
    let ticker = async {
        while !done.load(Ordering::SeqCst) {
            tokio::task::yield_now().await;
        }
    };
    let r = std::panic::catch_unwind(std::panic::AssertUnwindSafe(|| rt.block_on(async { futures::join!(cons, ticker).0 })));
    let term = match r {
        Ok(Ok(())) => Term::Returned,
        Ok(Err(_)) => Term::Stalled,
        Err(p) => Term::Panicked(crate::director::panic_msg(p)),
    };
    let log = std::mem::take(&mut sh.borrow_mut().log);
    Trace { term, result: None, log, quiescent: 0, polls: 0, runs_after: None }
}

// ---------------------------------------------------------------------------------- stream handed from thread to thread (C19)

struct FlagWaker(AtomicBool);
impl Wake for FlagWaker {
    fn wake(self: Arc<Self>) {
        self.0.store(true, Ordering::SeqCst);
    }
    fn wake_by_ref(self: &Arc<Self>) {
        self.0.store(true, Ordering::SeqCst);
    }
}

#[cfg(not(feature = "mt"))]
pub fn stream_handoff(_gs: &GraphSpec, _seed: u64) -> (Vec<Violation>, u64) {
    (Vec::new(), 0)
}

/// A stream is *moved*: thread A polls it to Pending, thread B (its new owner, with its own waker)
/// polls it to Pending again, thread C drops one of the FnRefs handed out so far, thread D polls.
/// Decided logically, no clock: once C's drop has returned, either B's waker - the waker of the
/// latest poll - has been signalled, or the poll on D must find nothing new. A function that D
/// receives although B was never woken is one the new owner would have waited for for ever.
/// Returns (violations, hand-overs made).
#[cfg(feature = "mt")]
pub fn stream_handoff(gs: &GraphSpec, seed: u64) -> (Vec<Violation>, u64) {
    let Some(g) = try_build(gs) else { return (Vec::new(), 0) };
    let mut rng = Rng::new(seed);
    let reverse = rng.chance(1, 2);
    let mut out = Vec::new();
    let mut handoffs = 0u64;
    type S<'a> = Pin<Box<dyn Stream<Item = FnRef<'a, TFn>> + Send + 'a>>;
    fn poll_on_new_thread<'a>(mut s: S<'a>) -> (S<'a>, Vec<FnRef<'a, TFn>>, bool, Arc<FlagWaker>) {
        thread::scope(|sc| {
            sc.spawn(move || {
                let fw = Arc::new(FlagWaker(AtomicBool::new(false)));
                let waker = Waker::from(fw.clone());
                let mut cx = Context::from_waker(&waker);
                let mut got = Vec::new();
                let mut ended = false;
                for _ in 0..10_000 {
                    match s.as_mut().poll_next(&mut cx) {
                        Poll::Ready(Some(r)) => got.push(r),
                        Poll::Ready(None) => {
                            ended = true;
                            break;
                        }
                        Poll::Pending => {
                            // a wake-up signalled during the poll itself means "poll again"
                            if !fw.0.swap(false, Ordering::SeqCst) {
                                break;
                            }
                        }
                    }
                }
                (s, got, ended, fw)
            })
            .join()
            .expect("polling thread")
        })
    }
    let mut s: S<'_> = if reverse { Box::pin(g.stream_with(fn_graph::StreamOpts::new().rev())) } else { Box::pin(g.stream()) };
    let mut held: Vec<FnRef<'_, TFn>> = Vec::new();
    let mut yielded = 0usize;
    for _round in 0..(4 * gs.n + 4) {
        // thread A
        let (s1, got, ended, _wa) = poll_on_new_thread(s);
        s = s1;
        yielded += got.len();
        held.extend(got);
        if ended {
            break;
        }
        // thread B: the new owner
        let (s2, got, ended, wb) = poll_on_new_thread(s);
        s = s2;
        yielded += got.len();
        held.extend(got);
        if ended || held.is_empty() {
            break;
        }
        handoffs += 1;
        // thread C drops some of what is held (one, or all of it)
        let k = if rng.chance(1, 4) { held.len() } else { 1 };
        let mut victims = Vec::new();
        for _ in 0..k {
            let i = rng.below(held.len());
            victims.push(held.swap_remove(i));
        }
        let dropped: Vec<usize> = victims.iter().map(|r| r.idx).collect();
        thread::scope(|sc| {
            sc.spawn(move || drop(victims));
        });
        let b_woken = wb.0.load(Ordering::SeqCst);
        // thread D
        let (s3, got, ended, _wd) = poll_on_new_thread(s);
        s = s3;
        if !b_woken && (!got.is_empty() || ended) {
            out.push(v(
                "C19",
                "moved-stream-new-owner-not-woken",
                format!(
                    "stream ({}) polled to Pending on thread A, then on thread B (new owner, own waker); FnRef(s) {dropped:?} dropped on thread C; B's waker was never signalled, yet a further poll {} - the new owner would have waited for ever | g={}",
                    if reverse { "reverse" } else { "forward" },
                    if ended { "ends the stream".to_string() } else { format!("yields function(s) {:?}", got.iter().map(|r| r.idx).collect::<Vec<_>>()) },
                    gs.encode()
                ),
            ));
            break;
        }
        yielded += got.len();
        held.extend(got);
        if ended {
            break;
        }
    }
    let _ = yielded;
    drop(held);
    drop(s);
    (out, handoffs)
}

// ---------------------------------------------------------------------------------- multi-thread runtime (C19 in-family part)

#[derive(Clone)]
pub struct SendLog {
    pub ev: Arc<Mutex<Vec<crate::director::Ev>>>,
    pub yields: Arc<Vec<u8>>,
}

impl SendLog {
    pub fn new(n: usize, rng: &mut Rng) -> SendLog {
        SendLog { ev: Arc::new(Mutex::new(Vec::new())), yields: Arc::new((0..n).map(|_| rng.below(3) as u8).collect()) }
    }
}

pub async fn send_user(log: SendLog, f: usize) {
    log.ev.lock().unwrap().push(crate::director::Ev::Start(f as u32));
    for _ in 0..log.yields[f] {
        tokio::task::yield_now().await;
    }
    log.ev.lock().unwrap().push(crate::director::Ev::End(f as u32, true));
}

/// Moves the values across threads for real: runs awaited inside `tokio::spawn` on a
/// multi-thread runtime with an `Arc<FnGraph>` shared by all tasks; `FnRef`s produced on one
/// worker are dropped on other threads. Only compiles when the Send/Sync promises of C19 hold
/// (default features).
#[cfg(all(not(feature = "b"), feature = "mt"))]
pub fn tokio_multi_thread(gs: &GraphSpec, seed: u64, tasks: usize) -> (Vec<Violation>, u64) {
    use crate::director::Ev;
    let Some(g) = try_build(gs) else { return (Vec::new(), 0) };
    let g = Arc::new(g);
    let ug = UserGraph::from_spec(gs);
    let built = tfn::built_of(&g);
    let n = gs.n;
    let rt = tokio::runtime::Builder::new_multi_thread().worker_threads(4).build().expect("runtime");
    let mut rng = Rng::new(seed);
    let mut out = Vec::new();
    let mut handles = Vec::new();
    for t in 0..tasks {
        let g = g.clone();
        let log = SendLog::new(n, &mut rng);
        let kind = t % 4;
        let limit = [None, Some(1), Some(2), Some(3)][rng.below(4)];
        let log2 = log.clone();
        let h = rt.spawn(async move {
            match kind {
                0 => {
                    let o = g.for_each_concurrent(limit, |f| send_user(log2.clone(), f.idx)).await;
                    (o.fn_ids_processed.len(), o.fn_ids_not_processed.len())
                }
                1 => {
                    let r = g
                        .try_for_each_concurrent(limit, |f| {
                            let l = log2.clone();
                            let i = f.idx;
                            async move {
                                send_user(l, i).await;
                                Ok::<(), u32>(())
                            }
                        })
                        .await;
                    match r {
                        Ok(o) => (o.fn_ids_processed.len(), o.fn_ids_not_processed.len()),
                        Err((o, _)) => (o.fn_ids_processed.len(), o.fn_ids_not_processed.len() + 1000),
                    }
                }
                2 => {
                    let r = g
                        .try_for_each_concurrent_control(limit, |f| {
                            let l = log2.clone();
                            let i = f.idx;
                            async move {
                                send_user(l, i).await;
                                std::ops::ControlFlow::<u32, ()>::Continue(())
                            }
                        })
                        .await;
                    match r {
                        std::ops::ControlFlow::Continue(o) => (o.fn_ids_processed.len(), o.fn_ids_not_processed.len()),
                        std::ops::ControlFlow::Break((o, _)) => (o.fn_ids_processed.len(), o.fn_ids_not_processed.len() + 1000),
                    }
                }
                _ => {
                    // stream on this task, FnRefs dropped by other spawned tasks (other threads)
                    let mut s = Box::pin(g.stream());
                    let mut cnt = 0;
                    while let Some(r) = s.next().await {
                        cnt += 1;
                        let idx = r.idx as u32;
                        log2.ev.lock().unwrap().push(Ev::Yield(idx));
                        // hand the FnRef to another OS thread and drop it there
                        std::thread::scope(|sc| {
                            sc.spawn(move || drop(r));
                        });
                        log2.ev.lock().unwrap().push(Ev::RefDrop(idx, true));
                    }
                    (cnt, 0)
                }
            }
        });
        handles.push((h, log, kind, limit));
    }
    let mut runs = 0u64;
    for (h, log, kind, limit) in handles {
        let res = rt.block_on(h);
        runs += 1;
        match res {
            Err(e) => out.push(v("C19", "task-failed", format!("spawned task failed: {e}"))),
            Ok((p, np)) => {
                if p != n || np != 0 {
                    out.push(v("C19", "spawned-run-incomplete", format!("task kind {kind}: processed {p} of {n}, not processed {np}")));
                }
                let ev = log.ev.lock().unwrap().clone();
                let mut rs = RunSpec::plain(if kind == 3 { Api::Stream } else { Api::ForEach }, n, Mode::Ready);
                rs.limit = limit;
                let tr = Trace { term: Term::Returned, result: None, log: ev, quiescent: 0, polls: 0, runs_after: None };
                let c = Ctx { gs, ug: &ug, built: &built, rs: &rs };
                let mut o = Vec::new();
                oracles::o_conflict(&c, &tr, &mut o);
                oracles::o_dep(&c, &tr, &mut o);
                oracles::o_once(&c, &tr, &mut o);
                if kind != 3 {
                    oracles::o_limit(&c, &tr, &mut o);
                }
                for mut x in o {
                    x.detail = format!("[tokio multi-thread task kind {kind}] {} | g={}", x.detail, gs.encode());
                    x.prop = "C19";
                    out.push(x);
                }
            }
        }
    }
    (out, runs)
}

#[cfg(not(all(not(feature = "b"), feature = "mt")))]
pub fn tokio_multi_thread(_gs: &GraphSpec, _seed: u64, _tasks: usize) -> (Vec<Violation>, u64) {
    // With `interruptible` the concurrent futures are not Send (and are not promised to be); without
    // the harness feature `mt` the Send-requiring workload is not compiled (so that a missing Send
    // makes only C19 undecidable / violated, not every other check).
    (Vec::new(), 0)
}

pub fn small_conflicting_graph(rng: &mut Rng, max_n: usize) -> GraphSpec {
    let mut p = GraphProfile::sched(max_n);
    p.min_n = 2;
    p.types = 2;
    p.max_access = 2;
    p.write_pct = 50;
    p.hostile_calls = false;
    gen::random_graph(rng, &p)
}
