//! Run specifications: which API, which options, how the user futures behave.

use std::fmt::Write as _;

#[derive(Clone, Copy, PartialEq, Eq, Debug, Hash, PartialOrd, Ord)]
pub enum Api {
    Stream,
    StreamWith,
    StreamIntr,
    StreamWithIntr,
    FoldAsync,
    FoldAsyncWith,
    FoldAsyncMut,
    FoldAsyncMutWith,
    TryFoldAsync,
    TryFoldAsyncWith,
    TryFoldAsyncMut,
    TryFoldAsyncMutWith,
    ForEach,
    ForEachWith,
    ForEachMut,
    ForEachMutWith,
    TryForEach,
    TryForEachWith,
    TryForEachMut,
    TryForEachMutWith,
    Control,
    ControlWith,
    ControlMut,
    ControlMutWith,
}

pub const ALL_APIS: [Api; 24] = [
    Api::Stream,
    Api::StreamWith,
    Api::StreamIntr,
    Api::StreamWithIntr,
    Api::FoldAsync,
    Api::FoldAsyncWith,
    Api::FoldAsyncMut,
    Api::FoldAsyncMutWith,
    Api::TryFoldAsync,
    Api::TryFoldAsyncWith,
    Api::TryFoldAsyncMut,
    Api::TryFoldAsyncMutWith,
    Api::ForEach,
    Api::ForEachWith,
    Api::ForEachMut,
    Api::ForEachMutWith,
    Api::TryForEach,
    Api::TryForEachWith,
    Api::TryForEachMut,
    Api::TryForEachMutWith,
    Api::Control,
    Api::ControlWith,
    Api::ControlMut,
    Api::ControlMutWith,
];

impl Api {
    pub fn name(self) -> &'static str {
        match self {
            Api::Stream => "stream",
            Api::StreamWith => "stream_with",
            Api::StreamIntr => "stream_interruptible",
            Api::StreamWithIntr => "stream_with_interruptible",
            Api::FoldAsync => "fold_async",
            Api::FoldAsyncWith => "fold_async_with",
            Api::FoldAsyncMut => "fold_async_mut",
            Api::FoldAsyncMutWith => "fold_async_mut_with",
            Api::TryFoldAsync => "try_fold_async",
            Api::TryFoldAsyncWith => "try_fold_async_with",
            Api::TryFoldAsyncMut => "try_fold_async_mut",
            Api::TryFoldAsyncMutWith => "try_fold_async_mut_with",
            Api::ForEach => "for_each_concurrent",
            Api::ForEachWith => "for_each_concurrent_with",
            Api::ForEachMut => "for_each_concurrent_mut",
            Api::ForEachMutWith => "for_each_concurrent_mut_with",
            Api::TryForEach => "try_for_each_concurrent",
            Api::TryForEachWith => "try_for_each_concurrent_with",
            Api::TryForEachMut => "try_for_each_concurrent_mut",
            Api::TryForEachMutWith => "try_for_each_concurrent_mut_with",
            Api::Control => "try_for_each_concurrent_control",
            Api::ControlWith => "try_for_each_concurrent_control_with",
            Api::ControlMut => "try_for_each_concurrent_control_mut",
            Api::ControlMutWith => "try_for_each_concurrent_control_mut_with",
        }
    }
    pub fn from_name(s: &str) -> Option<Api> {
        ALL_APIS.iter().copied().find(|a| a.name() == s)
    }
    pub fn is_stream(self) -> bool {
        matches!(self, Api::Stream | Api::StreamWith | Api::StreamIntr | Api::StreamWithIntr)
    }
    /// Only exists with the `interruptible` feature.
    pub fn needs_b(self) -> bool {
        matches!(self, Api::StreamIntr | Api::StreamWithIntr)
    }
    pub fn is_mut(self) -> bool {
        use Api::*;
        matches!(
            self,
            FoldAsyncMut
                | FoldAsyncMutWith
                | TryFoldAsyncMut
                | TryFoldAsyncMutWith
                | ForEachMut
                | ForEachMutWith
                | TryForEachMut
                | TryForEachMutWith
                | ControlMut
                | ControlMutWith
        )
    }
    /// Takes a `StreamOpts`.
    pub fn has_opts(self) -> bool {
        use Api::*;
        matches!(
            self,
            StreamWith
                | StreamWithIntr
                | FoldAsyncWith
                | FoldAsyncMutWith
                | TryFoldAsyncWith
                | TryFoldAsyncMutWith
                | ForEachWith
                | ForEachMutWith
                | TryForEachWith
                | TryForEachMutWith
                | ControlWith
                | ControlMutWith
        )
    }
    pub fn is_fold(self) -> bool {
        use Api::*;
        matches!(
            self,
            FoldAsync
                | FoldAsyncWith
                | FoldAsyncMut
                | FoldAsyncMutWith
                | TryFoldAsync
                | TryFoldAsyncWith
                | TryFoldAsyncMut
                | TryFoldAsyncMutWith
        )
    }
    /// for_each_concurrent family (takes a limit).
    pub fn is_concurrent_call(self) -> bool {
        !self.is_stream() && !self.is_fold()
    }
    pub fn is_try(self) -> bool {
        use Api::*;
        matches!(
            self,
            TryFoldAsync
                | TryFoldAsyncWith
                | TryFoldAsyncMut
                | TryFoldAsyncMutWith
                | TryForEach
                | TryForEachWith
                | TryForEachMut
                | TryForEachMutWith
                | Control
                | ControlWith
                | ControlMut
                | ControlMutWith
        )
    }
    pub fn is_control(self) -> bool {
        use Api::*;
        matches!(self, Control | ControlWith | ControlMut | ControlMutWith)
    }
    /// Honours interrupt options (with the `interruptible` feature).
    pub fn interruptible(self) -> bool {
        self.has_opts() && self != Api::StreamWith
    }
    /// Which of the 8 internal code paths (+ stream) this entry point reaches.
    pub fn internal_path(self) -> &'static str {
        use Api::*;
        match self {
            Stream | StreamWith | StreamIntr | StreamWithIntr => "stream_internal",
            FoldAsync | FoldAsyncWith => "fold_async_internal",
            FoldAsyncMut | FoldAsyncMutWith => "fold_async_mut_internal",
            TryFoldAsync | TryFoldAsyncWith => "try_fold_async_internal",
            TryFoldAsyncMut | TryFoldAsyncMutWith => "try_fold_async_mut_internal",
            ForEach | ForEachWith => "for_each_concurrent_internal",
            ForEachMut | ForEachMutWith => "for_each_concurrent_mut_internal",
            TryForEach | TryForEachWith | Control | ControlWith => "try_for_each_concurrent_internal",
            TryForEachMut | TryForEachMutWith | ControlMut | ControlMutWith => {
                "try_for_each_concurrent_mut_internal"
            }
        }
    }
}

#[derive(Clone, Copy, PartialEq, Eq, Debug, Hash)]
pub enum Intr {
    /// Default options (NonInterruptible, no channel).
    None,
    /// IgnoreInterruptions with a live channel.
    Ignore,
    FinishCurrent,
    PollNextN(u64),
}

#[derive(Clone, Copy, PartialEq, Eq, Debug, Hash)]
pub enum SignalPlan {
    Never,
    /// Sent before the first poll.
    BeforeCall,
    /// The tape decides at which quiescent point (or between which consumer actions of a stream).
    Tape,
    /// Sent from inside the user future of function f, when it is handed out. Sequential APIs only.
    AtStart(u32),
    /// Sent from inside the user future of function f, right before it completes.
    AtEnd(u32),
}

#[derive(Clone, Copy, PartialEq, Eq, Debug, Hash)]
pub enum Mode {
    /// Completes on first poll (`async {}`).
    Ready,
    /// Pends until the director releases it.
    Held,
    /// Wakes itself k times before completing (`yield_now` k times).
    SelfWake(u8),
}

#[derive(Clone, Debug, PartialEq, Eq, Hash)]
pub struct RunSpec {
    pub api: Api,
    pub reverse: bool,
    pub limit: Option<usize>,
    pub intr: Intr,
    pub include: bool,
    pub signal: SignalPlan,
    /// Functions whose user future fails.
    pub fail: Vec<u32>,
    /// Per function.
    pub modes: Vec<Mode>,
    /// Director may release several gates / drop several refs between two polls.
    pub batch: bool,
    /// Max number of polls issued without a wake-up.
    pub spurious: u8,
    /// Director may drop the call / stream midway.
    pub allow_drop: bool,
    /// Stream consumer takes everything the stream offers before dropping anything (so that many
    /// FnRefs are outstanding and can be dropped in bulk between two polls).
    pub greedy: bool,
}

impl RunSpec {
    pub fn plain(api: Api, n: usize, mode: Mode) -> RunSpec {
        RunSpec {
            api,
            reverse: false,
            limit: None,
            intr: Intr::None,
            include: true,
            signal: SignalPlan::Never,
            fail: Vec::new(),
            modes: vec![mode; n],
            batch: false,
            spurious: 0,
            allow_drop: false,
            greedy: false,
        }
    }
    pub fn fails(&self, f: usize) -> bool {
        self.fail.contains(&(f as u32))
    }
    /// Makes the spec meaningful for its API (non-`with` entry points have no options, streams have
    /// no user futures that fail, ...). Generators call this so that specs say what actually runs.
    pub fn normalise(mut self, cfg_b: bool) -> RunSpec {
        let api = self.api;
        if !api.has_opts() {
            self.reverse = false;
        }
        if api == Api::StreamIntr {
            // default opts: NonInterruptible
            self.intr = Intr::None;
        }
        if !cfg_b || !api.interruptible() {
            self.intr = Intr::None;
        }
        if self.intr == Intr::None {
            self.signal = SignalPlan::Never;
            self.include = true;
        }
        if !api.is_concurrent_call() {
            self.limit = None;
        }
        if !api.is_try() {
            self.fail.clear();
        }
        if api.is_stream() {
            for m in self.modes.iter_mut() {
                *m = Mode::Held;
            }
        }
        // Signals from inside a user future: sequential APIs (hand-out == start, exact bound) and
        // concurrent call APIs (bound asserted from the next quiescent point on, see o_intr).
        if matches!(self.signal, SignalPlan::AtStart(_) | SignalPlan::AtEnd(_)) && api.is_stream() {
            self.signal = SignalPlan::Tape;
        }
        self.fail.sort_unstable();
        self.fail.dedup();
        self
    }

    pub fn encode(&self) -> String {
        let mut s = String::new();
        write!(s, "api={};rev={};lim=", self.api.name(), self.reverse as u8).unwrap();
        match self.limit {
            None => s.push('-'),
            Some(l) => write!(s, "{l}").unwrap(),
        }
        s.push_str(";intr=");
        match self.intr {
            Intr::None => s.push_str("none"),
            Intr::Ignore => s.push_str("ign"),
            Intr::FinishCurrent => s.push_str("fc"),
            Intr::PollNextN(k) => write!(s, "pn{k}").unwrap(),
        }
        write!(s, ";inc={};sig=", self.include as u8).unwrap();
        match self.signal {
            SignalPlan::Never => s.push_str("never"),
            SignalPlan::BeforeCall => s.push_str("before"),
            SignalPlan::Tape => s.push_str("tape"),
            SignalPlan::AtStart(f) => write!(s, "s{f}").unwrap(),
            SignalPlan::AtEnd(f) => write!(s, "e{f}").unwrap(),
        }
        s.push_str(";fail=");
        s.push_str(&self.fail.iter().map(|f| f.to_string()).collect::<Vec<_>>().join("."));
        s.push_str(";modes=");
        let mut i = 0;
        let mut first = true;
        while i < self.modes.len() {
            let mut j = i;
            while j < self.modes.len() && self.modes[j] == self.modes[i] {
                j += 1;
            }
            if !first {
                s.push('.');
            }
            first = false;
            match self.modes[i] {
                Mode::Ready => s.push('R'),
                Mode::Held => s.push('H'),
                Mode::SelfWake(k) => write!(s, "S{k}").unwrap(),
            }
            if j - i > 1 {
                write!(s, "x{}", j - i).unwrap();
            }
            i = j;
        }
        write!(s, ";batch={};spur={};drop={}", self.batch as u8, self.spurious, self.allow_drop as u8).unwrap();
        if self.greedy {
            s.push_str(";greedy=1");
        }
        s
    }

    pub fn decode(s: &str) -> Result<RunSpec, String> {
        let mut r = RunSpec::plain(Api::Stream, 0, Mode::Held);
        for part in s.split(';') {
            let (k, v) = part.split_once('=').ok_or_else(|| format!("bad part {part}"))?;
            match k {
                "api" => r.api = Api::from_name(v).ok_or_else(|| format!("unknown api {v}"))?,
                "rev" => r.reverse = v == "1",
                "lim" => r.limit = if v == "-" { None } else { Some(v.parse().map_err(|_| "bad lim")?) },
                "intr" => {
                    r.intr = match v {
                        "none" => Intr::None,
                        "ign" => Intr::Ignore,
                        "fc" => Intr::FinishCurrent,
                        _ => Intr::PollNextN(
                            v.strip_prefix("pn").ok_or("bad intr")?.parse().map_err(|_| "bad pn")?,
                        ),
                    }
                }
                "inc" => r.include = v == "1",
                "sig" => {
                    r.signal = match v {
                        "never" => SignalPlan::Never,
                        "before" => SignalPlan::BeforeCall,
                        "tape" => SignalPlan::Tape,
                        _ if v.starts_with('s') => SignalPlan::AtStart(v[1..].parse().map_err(|_| "bad sig")?),
                        _ if v.starts_with('e') => SignalPlan::AtEnd(v[1..].parse().map_err(|_| "bad sig")?),
                        _ => return Err(format!("bad sig {v}")),
                    }
                }
                "fail" => {
                    r.fail = v
                        .split('.')
                        .filter(|x| !x.is_empty())
                        .map(|x| x.parse::<u32>().map_err(|_| "bad fail".to_string()))
                        .collect::<Result<_, _>>()?
                }
                "modes" => {
                    r.modes.clear();
                    for tok in v.split('.').filter(|x| !x.is_empty()) {
                        let (m, rep) = match tok.split_once('x') {
                            Some((m, rep)) => (m, rep.parse::<usize>().map_err(|_| "bad rep")?),
                            None => (tok, 1),
                        };
                        let mode = match m {
                            "R" => Mode::Ready,
                            "H" => Mode::Held,
                            _ => Mode::SelfWake(m.strip_prefix('S').ok_or("bad mode")?.parse().map_err(|_| "bad S")?),
                        };
                        for _ in 0..rep {
                            r.modes.push(mode);
                        }
                    }
                }
                "batch" => r.batch = v == "1",
                "spur" => r.spurious = v.parse().map_err(|_| "bad spur")?,
                "drop" => r.allow_drop = v == "1",
                "greedy" => r.greedy = v == "1",
                _ => return Err(format!("unknown key {k}")),
            }
        }
        Ok(r)
    }
}
