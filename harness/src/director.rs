//! The controlled executor.
//!
//! The library under test owns no thread, timer or reactor: every wake-up it can ever receive
//! originates from a user future completing, an `FnRef` being dropped, or its own channel sends
//! during a poll that we issued. The director owns the root waker (a flag) and every user future
//! (a `Gate`), so it can produce any completion / poll order on demand, records a totally ordered
//! event log at the API boundary, and decides deadlock and lost wake-ups logically.

use std::cell::RefCell;
use std::future::Future;
use std::panic::{catch_unwind, AssertUnwindSafe};
use std::pin::Pin;
use std::rc::Rc;
use std::sync::atomic::{AtomicBool, AtomicU64, Ordering};
use std::sync::Arc;
use std::task::{Context, Poll, Wake, Waker};

use fn_graph::FnRef;
use futures::stream::Stream;

use crate::choice::Tape;
use crate::spec::{Mode, RunSpec, SignalPlan};
use crate::tfn::TFn;

#[derive(Clone, Copy, Debug, PartialEq, Eq, Hash)]
pub enum Ev {
    /// Root future / stream polled (flag cleared just before).
    Poll,
    /// Same, but issued although no wake-up was signalled.
    Spurious,
    Pending { woken: bool },
    /// Root future returned.
    Ready,
    Panic,
    /// User closure invoked for function f (hand-out).
    Start(u32),
    /// User future of f resolved (ok?).
    End(u32, bool),
    /// User future of f dropped before it resolved.
    Cancelled(u32),
    /// Director allowed the held future of f to complete.
    Release(u32),
    /// Interrupt signal sent.
    Signal,
    /// Root pending, flag clear.
    Quiescent,
    /// Director dropped the call / the stream.
    RootDrop,
    /// Stream yielded an FnRef for f.
    Yield(u32),
    /// Stream yielded `PollOutcome::Interrupted(Some(f))`.
    YieldIntr(u32),
    /// Stream yielded `PollOutcome::Interrupted(None)`.
    IntrNone,
    /// FnRef of f dropped; flag state right after.
    RefDrop(u32, bool),
    /// Stream returned None.
    StreamNone,
}

pub struct Flag {
    set: AtomicBool,
    pub wakes: AtomicU64,
}

impl Flag {
    pub fn new() -> Arc<Flag> {
        Arc::new(Flag { set: AtomicBool::new(false), wakes: AtomicU64::new(0) })
    }
    pub fn get(&self) -> bool {
        self.set.load(Ordering::SeqCst)
    }
    pub fn clear(&self) {
        self.set.store(false, Ordering::SeqCst)
    }
}

impl Wake for Flag {
    fn wake(self: Arc<Self>) {
        self.wake_by_ref()
    }
    fn wake_by_ref(self: &Arc<Self>) {
        self.set.store(true, Ordering::SeqCst);
        self.wakes.fetch_add(1, Ordering::Relaxed);
    }
}

#[derive(Clone, Copy, Debug, PartialEq, Eq)]
pub enum GateSt {
    Handed,
    Held,
    Released,
    SelfWaking(u8),
    Done,
}

pub struct Inst {
    pub f: u32,
    pub state: GateSt,
    pub waker: Option<Waker>,
}

#[cfg(feature = "b")]
pub type SigTx = tokio::sync::mpsc::Sender<interruptible::InterruptSignal>;
#[cfg(not(feature = "b"))]
pub type SigTx = ();

pub struct RunState {
    pub log: Vec<Ev>,
    pub insts: Vec<Inst>,
    pub modes: Vec<Mode>,
    pub fail: Vec<bool>,
    pub sig_tx: Option<SigTx>,
    pub signal_plan: SignalPlan,
    pub signal_sent: bool,
}

pub type Shared = Rc<RefCell<RunState>>;

impl RunState {
    pub fn new(n: usize, spec: &RunSpec, sig_tx: Option<SigTx>) -> Shared {
        let mut fail = vec![false; n];
        for &f in &spec.fail {
            if (f as usize) < n {
                fail[f as usize] = true;
            }
        }
        let mut modes = spec.modes.clone();
        modes.resize(n, Mode::Held);
        Rc::new(RefCell::new(RunState {
            log: Vec::with_capacity(4 * n + 16),
            insts: Vec::with_capacity(n),
            modes,
            fail,
            sig_tx,
            signal_plan: spec.signal,
            signal_sent: false,
        }))
    }

    pub fn send_signal(&mut self) {
        if self.signal_sent {
            return;
        }
        #[cfg(feature = "b")]
        if let Some(tx) = self.sig_tx.as_ref() {
            let _ = tx.try_send(interruptible::InterruptSignal);
            self.signal_sent = true;
            self.log.push(Ev::Signal);
        }
    }

    pub fn held(&self) -> Vec<usize> {
        self.insts
            .iter()
            .enumerate()
            .filter(|(_, i)| i.state == GateSt::Held)
            .map(|(k, _)| k)
            .collect()
    }
    pub fn held_count(&self) -> usize {
        self.insts.iter().filter(|i| i.state == GateSt::Held).count()
    }
}

/// The user future.
pub struct Gate {
    sh: Shared,
    inst: usize,
}

impl Gate {
    /// Called from inside the user closure: this is the hand-out point.
    pub fn new(sh: &Shared, f: usize) -> Gate {
        let mut st = sh.borrow_mut();
        let inst = st.insts.len();
        st.insts.push(Inst { f: f as u32, state: GateSt::Handed, waker: None });
        st.log.push(Ev::Start(f as u32));
        if st.signal_plan == SignalPlan::AtStart(f as u32) {
            st.send_signal();
        }
        Gate { sh: sh.clone(), inst }
    }
}

impl Future for Gate {
    /// true = ok, false = the function failed
    type Output = bool;

    fn poll(self: Pin<&mut Self>, cx: &mut Context<'_>) -> Poll<bool> {
        let mut st = self.sh.borrow_mut();
        let k = self.inst;
        let f = st.insts[k].f;
        let complete = match st.insts[k].state {
            GateSt::Handed => match st.modes[f as usize] {
                Mode::Ready => true,
                Mode::Held => {
                    st.insts[k].state = GateSt::Held;
                    st.insts[k].waker = Some(cx.waker().clone());
                    false
                }
                Mode::SelfWake(0) => true,
                Mode::SelfWake(n) => {
                    st.insts[k].state = GateSt::SelfWaking(n - 1);
                    cx.waker().wake_by_ref();
                    false
                }
            },
            GateSt::Held => {
                st.insts[k].waker = Some(cx.waker().clone());
                false
            }
            GateSt::Released => true,
            GateSt::SelfWaking(0) => true,
            GateSt::SelfWaking(n) => {
                st.insts[k].state = GateSt::SelfWaking(n - 1);
                cx.waker().wake_by_ref();
                false
            }
            GateSt::Done => panic!("harness: gate polled after completion"),
        };
        if complete {
            if st.signal_plan == SignalPlan::AtEnd(f) {
                st.send_signal();
            }
            let ok = !st.fail[f as usize];
            st.insts[k].state = GateSt::Done;
            st.insts[k].waker = None;
            st.log.push(Ev::End(f, ok));
            Poll::Ready(ok)
        } else {
            Poll::Pending
        }
    }
}

impl Drop for Gate {
    fn drop(&mut self) {
        if let Ok(mut st) = self.sh.try_borrow_mut() {
            let k = self.inst;
            if st.insts[k].state != GateSt::Done {
                let f = st.insts[k].f;
                st.insts[k].state = GateSt::Done;
                st.insts[k].waker = None;
                st.log.push(Ev::Cancelled(f));
            }
        }
    }
}

#[derive(Clone, Debug, PartialEq, Eq)]
pub enum Term {
    /// Call returned / stream consumer ran to its end.
    Returned,
    /// Pending, no wake-up signalled, nothing in flight that the director could complete.
    Deadlock,
    /// A held user future was completed (its waker invoked) and the root waker was not signalled.
    LostWake(u32),
    Panicked(String),
    /// Director dropped the call midway (only with allow_drop).
    Dropped,
    /// Keeps waking itself without any event.
    Livelock,
    /// Stream: consumer cannot act any more (pending, not woken, no FnRef held) before the end.
    Stalled,
}

pub fn panic_msg(p: Box<dyn std::any::Any + Send>) -> String {
    if let Some(s) = p.downcast_ref::<&str>() {
        s.to_string()
    } else if let Some(s) = p.downcast_ref::<String>() {
        s.clone()
    } else {
        "<non-string panic>".to_string()
    }
}

/// Drives one call-style future.
pub struct CallDriver<'g, T> {
    fut: Option<Pin<Box<dyn Future<Output = T> + 'g>>>,
    pub sh: Shared,
    pub flag: Arc<Flag>,
    waker: Waker,
    /// Every poll gets a fresh waker (decided per run spec).
    rotate_waker: bool,
    need_poll: bool,
    spurious_left: u8,
    idle_polls: usize,
    n: usize,
    batch: bool,
    allow_drop: bool,
    pub result: Option<T>,
    pub term: Option<Term>,
    pub quiescent_points: usize,
    pub polls: usize,
}

impl<'g, T> CallDriver<'g, T> {
    pub fn new(
        fut: Pin<Box<dyn Future<Output = T> + 'g>>,
        sh: Shared,
        spec: &RunSpec,
        n: usize,
        tape: &mut Tape,
    ) -> Self {
        let flag = Flag::new();
        let waker = Waker::from(flag.clone());
        {
            let mut st = sh.borrow_mut();
            match st.signal_plan {
                SignalPlan::BeforeCall => st.send_signal(),
                SignalPlan::Tape => {
                    if tape.coin(1, 5) {
                        st.send_signal()
                    }
                }
                _ => {}
            }
        }
        CallDriver {
            fut: Some(fut),
            sh,
            flag,
            waker,
            rotate_waker: (crate::runner::hash_of(spec) >> 3) & 1 == 1,
            need_poll: true,
            spurious_left: spec.spurious,
            idle_polls: 0,
            n,
            batch: spec.batch,
            allow_drop: spec.allow_drop,
            result: None,
            term: None,
            quiescent_points: 0,
            polls: 0,
        }
    }

    pub fn finished(&self) -> bool {
        self.term.is_some()
    }

    fn finish(&mut self, t: Term) {
        // Dropping the future may run user-future destructors (logged as Cancelled) and, in a
        // broken library, panic.
        if let Some(f) = self.fut.take() {
            let r = catch_unwind(AssertUnwindSafe(move || drop(f)));
            if let (Err(p), Term::Returned | Term::Dropped) = (r, &t) {
                self.sh.borrow_mut().log.push(Ev::Panic);
                self.term = Some(Term::Panicked(format!("on drop: {}", panic_msg(p))));
                return;
            }
        }
        self.term = Some(t);
    }

    fn poll_once(&mut self, spurious: bool) {
        if self.rotate_waker {
            // a new waker for every poll (a task may be polled with a different waker each time;
            // only the most recent one has to be woken): a library that keeps the first waker it
            // saw shows up as a lost wake-up
            self.flag = Flag::new();
            self.waker = Waker::from(self.flag.clone());
        } else {
            self.flag.clear();
        }
        let len_before = {
            let mut st = self.sh.borrow_mut();
            st.log.push(if spurious { Ev::Spurious } else { Ev::Poll });
            st.log.len()
        };
        self.polls += 1;
        let mut cx = Context::from_waker(&self.waker);
        let fut = self.fut.as_mut().expect("polled after finish");
        let r = catch_unwind(AssertUnwindSafe(|| fut.as_mut().poll(&mut cx)));
        match r {
            Err(p) => {
                self.sh.borrow_mut().log.push(Ev::Panic);
                // the future is poisoned; drop it, ignoring secondary panics
                if let Some(f) = self.fut.take() {
                    let _ = catch_unwind(AssertUnwindSafe(move || drop(f)));
                }
                self.term = Some(Term::Panicked(panic_msg(p)));
            }
            Ok(Poll::Ready(v)) => {
                self.sh.borrow_mut().log.push(Ev::Ready);
                self.result = Some(v);
                self.finish(Term::Returned);
            }
            Ok(Poll::Pending) => {
                let woken = self.flag.get();
                let progressed = {
                    let mut st = self.sh.borrow_mut();
                    let progressed = st.log.len() != len_before;
                    st.log.push(Ev::Pending { woken });
                    progressed
                };
                if woken {
                    self.need_poll = true;
                    if progressed {
                        self.idle_polls = 0;
                    } else {
                        self.idle_polls += 1;
                        if self.idle_polls > 3 * self.n + 50 {
                            self.finish(Term::Livelock);
                        }
                    }
                } else {
                    self.idle_polls = 0;
                    self.need_poll = false;
                    self.quiescent_points += 1;
                    self.sh.borrow_mut().log.push(Ev::Quiescent);
                }
            }
        }
    }

    /// Completes the held future `inst`; returns false if the root waker was not signalled.
    fn release(&mut self, inst: usize) -> bool {
        let (w, f) = {
            let mut st = self.sh.borrow_mut();
            let f = st.insts[inst].f;
            st.insts[inst].state = GateSt::Released;
            st.log.push(Ev::Release(f));
            (st.insts[inst].waker.take(), f)
        };
        let _ = f;
        if let Some(w) = w {
            w.wake();
        }
        self.flag.get()
    }

    /// One director step: a poll, or one action at a quiescent point.
    pub fn step(&mut self, tape: &mut Tape) {
        if self.term.is_some() {
            return;
        }
        if self.need_poll {
            if self.polls > 0 {
                // the previous poll returned Pending with a wake-up outstanding: act before re-polling
                if self.batch {
                    let held = self.sh.borrow().held();
                    if !held.is_empty() && tape.coin(1, 4) {
                        let k = held[tape.choose(held.len())];
                        self.release(k);
                    }
                }
                let can_signal = {
                    let st = self.sh.borrow();
                    st.signal_plan == SignalPlan::Tape && !st.signal_sent && st.sig_tx.is_some()
                };
                if can_signal && tape.coin(1, 8) {
                    // a signal that arrives between two polls while the call is NOT quiescent
                    self.sh.borrow_mut().send_signal();
                }
            }
            self.poll_once(false);
            return;
        }
        // quiescent: root pending, flag clear
        let held = self.sh.borrow().held();
        let can_signal = {
            let st = self.sh.borrow();
            st.signal_plan == SignalPlan::Tape && !st.signal_sent && st.sig_tx.is_some()
        };
        let can_spur = self.spurious_left > 0;
        let can_drop = self.allow_drop;
        if held.is_empty() && !can_signal && !can_spur {
            // nothing can ever wake this future again
            if can_drop {
                self.sh.borrow_mut().log.push(Ev::RootDrop);
            }
            self.finish(Term::Deadlock);
            return;
        }
        // two-level choice: first the kind of action, then its operand (keeps the choice unbiased
        // on wide graphs where hundreds of futures are held)
        #[derive(Clone, Copy, PartialEq)]
        enum Act {
            Release,
            ReleaseAll,
            Signal,
            Spur,
            Drop,
        }
        let mut acts: Vec<Act> = Vec::with_capacity(5);
        if self.batch && held.len() >= 2 && tape.coin(1, 4) {
            // bulk completion between two polls: all, half, a quarter or a random number of the
            // held futures, starting at a random one
            acts.push(Act::ReleaseAll);
        } else {
            if !held.is_empty() {
                acts.push(Act::Release);
            }
            if can_signal {
                acts.push(Act::Signal);
            }
            if can_spur {
                acts.push(Act::Spur);
            }
            if can_drop {
                acts.push(Act::Drop);
            }
        }
        match acts[tape.choose(acts.len())] {
            Act::Release => {
                let k = held[tape.choose(held.len())];
                let f = self.sh.borrow().insts[k].f;
                if !self.release(k) {
                    self.finish(Term::LostWake(f));
                    return;
                }
                if self.batch {
                    loop {
                        let held = self.sh.borrow().held();
                        if held.is_empty() || !tape.coin(1, 3) {
                            break;
                        }
                        let k = held[tape.choose(held.len())];
                        self.release(k);
                    }
                }
                self.need_poll = true;
            }
            Act::ReleaseAll => {
                let len = held.len();
                let k = match tape.choose(4) {
                    0 => len,
                    1 => (len / 2).max(1),
                    2 => (len / 4).max(1),
                    _ => 1 + tape.choose(len),
                }
                .min(len);
                let off = tape.choose(len);
                let first = held[off];
                let f = self.sh.borrow().insts[first].f;
                if !self.release(first) {
                    self.finish(Term::LostWake(f));
                    return;
                }
                for i in 1..k {
                    self.release(held[(off + i) % len]);
                }
                self.need_poll = true;
            }
            Act::Signal => {
                // a signal wakes nobody: stay quiescent
                self.sh.borrow_mut().send_signal();
            }
            Act::Spur => {
                self.spurious_left -= 1;
                self.poll_once(true);
            }
            Act::Drop => {
                self.sh.borrow_mut().log.push(Ev::RootDrop);
                self.finish(Term::Dropped);
            }
        }
    }

    pub fn run(&mut self, tape: &mut Tape) {
        while self.term.is_none() {
            self.step(tape);
        }
    }

    /// Drop the call now (used by history generators for C15).
    pub fn abort(&mut self) {
        if self.term.is_none() {
            self.sh.borrow_mut().log.push(Ev::RootDrop);
            self.finish(Term::Dropped);
        }
    }
}

thread_local! {
    /// Polls issued after a stream returned `None` (evidence counter, read and reset by the runner).
    pub static POST_END_POLLS: std::cell::Cell<u64> = const { std::cell::Cell::new(0) };
    /// FnRefs dropped from inside a waker clone, i.e. in the middle of a poll.
    pub static MID_POLL_DROPS: std::cell::Cell<u64> = const { std::cell::Cell::new(0) };
    /// FnRef clones made (only non-zero on a tree where FnRef is Clone).
    pub static FNREF_CLONES: std::cell::Cell<u64> = const { std::cell::Cell::new(0) };
}

/// A waker for ONE poll whose `clone` runs a hook before handing back an ordinary flag waker.
/// The library clones the waker at the moment it registers it with a channel, i.e. in the middle
/// of `poll_next`; dropping a held FnRef from inside that clone is, for the code under test,
/// exactly what a second thread dropping the FnRef at that instant would be (the channel's own
/// lock-free protocol has to cope with a send that races the registration) - but deterministic
/// and single-threaded. The hook waker lives on the stack of `poll_once` only; every clone the
/// library keeps is a plain `Arc<Flag>` waker.
struct HookCtx<'a> {
    flag: Arc<Flag>,
    hook: &'a dyn Fn(),
}

unsafe fn hook_clone(p: *const ()) -> std::task::RawWaker {
    let ctx = &*(p as *const HookCtx<'_>);
    (ctx.hook)();
    let w = Waker::from(ctx.flag.clone());
    let raw = std::task::RawWaker::new(w.data(), w.vtable());
    std::mem::forget(w);
    raw
}
unsafe fn hook_wake(p: *const ()) {
    let ctx = &*(p as *const HookCtx<'_>);
    ctx.flag.clone().wake();
}
unsafe fn hook_drop(_p: *const ()) {}
static HOOK_VTABLE: std::task::RawWakerVTable = std::task::RawWakerVTable::new(hook_clone, hook_wake, hook_wake, hook_drop);

/// "Exercise a capability if the type has it" (autoref specialisation, decided at compile time):
/// `FnRef` is a guard whose drop reports the function as finished. Should it ever become `Clone`,
/// a function must stay in flight until ALL its handles are gone; the stream driver clones every
/// third FnRef it receives and drops the clone at once while it keeps the original - with a
/// naive `Clone` the successor is released while the original is still held, which the ordering /
/// conflict oracles see. On a tree where `FnRef` is not `Clone` this compiles to nothing.
pub struct CloneProbe<'a, T>(pub &'a T);
pub trait CloneYes<T> {
    fn maybe_clone(&self) -> Option<T>;
}
pub trait CloneNo<T> {
    fn maybe_clone(&self) -> Option<T>;
}
impl<T: Clone> CloneYes<T> for CloneProbe<'_, T> {
    fn maybe_clone(&self) -> Option<T> {
        Some(self.0.clone())
    }
}
impl<T> CloneNo<T> for &CloneProbe<'_, T> {
    fn maybe_clone(&self) -> Option<T> {
        None
    }
}

/// What a stream hands out, unified over the plain and the interruptible streams.
pub enum SItem<'g> {
    Plain(FnRef<'g, TFn>),
    IntrSome(FnRef<'g, TFn>),
    IntrNone,
}

pub type BoxStream<'g> = Pin<Box<dyn Stream<Item = SItem<'g>> + 'g>>;

/// Drives one `stream*()` consumer: any interleaving of `poll_next`, FnRef drops, stream drop.
pub struct StreamDriver<'g> {
    stream: Option<BoxStream<'g>>,
    pub sh: Shared,
    pub flag: Arc<Flag>,
    waker: Waker,
    /// Every poll gets a fresh waker (decided per run spec).
    rotate_waker: bool,
    pub held: Vec<(u32, FnRef<'g, TFn>)>,
    last_was_item: bool,
    first: bool,
    ended: bool,
    spurious_left: u8,
    batch: bool,
    allow_drop: bool,
    greedy: bool,
    pub term: Option<Term>,
    pub polls: usize,
    pub idle_points: usize,
    /// Polls issued after the stream returned `None`.
    pub post_end_polls: usize,
    yields_seen: usize,
    /// This run drops FnRefs from inside the waker's clone (decided per run spec).
    mid_poll_drops: bool,
}

impl<'g> StreamDriver<'g> {
    pub fn new(stream: BoxStream<'g>, sh: Shared, spec: &RunSpec, tape: &mut Tape) -> Self {
        let flag = Flag::new();
        let waker = Waker::from(flag.clone());
        {
            let mut st = sh.borrow_mut();
            match st.signal_plan {
                SignalPlan::BeforeCall => st.send_signal(),
                SignalPlan::Tape => {
                    if tape.coin(1, 5) {
                        st.send_signal()
                    }
                }
                _ => {}
            }
        }
        StreamDriver {
            stream: Some(stream),
            sh,
            flag,
            waker,
            rotate_waker: (crate::runner::hash_of(spec) >> 3) & 1 == 1,
            held: Vec::new(),
            last_was_item: false,
            first: true,
            ended: false,
            spurious_left: spec.spurious,
            batch: spec.batch,
            allow_drop: spec.allow_drop,
            greedy: spec.greedy,
            term: None,
            polls: 0,
            idle_points: 0,
            post_end_polls: 0,
            yields_seen: 0,
            mid_poll_drops: (crate::runner::hash_of(spec) >> 7) & 3 == 0,
        }
    }

    pub fn finished(&self) -> bool {
        self.term.is_some()
    }

    fn poll_once(&mut self, spurious: bool) {
        if self.rotate_waker {
            self.flag = Flag::new();
            self.waker = Waker::from(self.flag.clone());
        } else {
            self.flag.clear();
        }
        self.sh.borrow_mut().log.push(if spurious { Ev::Spurious } else { Ev::Poll });
        self.polls += 1;
        self.first = false;
        // every third poll of a "mid-poll drop" run: one held FnRef is dropped from inside the
        // waker's clone, i.e. while the stream is registering its waker (see HookCtx)
        let arm = self.mid_poll_drops && self.polls % 3 == 2 && !self.held.is_empty();
        let r = if arm {
            let held = std::cell::RefCell::new(std::mem::take(&mut self.held));
            let fired = std::cell::Cell::new(false);
            let sh = self.sh.clone();
            let flag = self.flag.clone();
            let pick = self.polls;
            let hook = || {
                if fired.replace(true) {
                    return;
                }
                let Ok(mut h) = held.try_borrow_mut() else { return };
                if h.is_empty() {
                    return;
                }
                let i = pick % h.len();
                let (f, r) = h.remove(i);
                drop(h);
                let _ = catch_unwind(AssertUnwindSafe(move || drop(r)));
                MID_POLL_DROPS.with(|c| c.set(c.get() + 1));
                if let Ok(mut st) = sh.try_borrow_mut() {
                    st.log.push(Ev::RefDrop(f, flag.get()));
                }
            };
            let ctx = HookCtx { flag: self.flag.clone(), hook: &hook };
            // SAFETY: `ctx` outlives the waker (both live until the end of this block); the vtable
            // functions only read `ctx`; clones handed to the library are ordinary Arc wakers.
            let hw = unsafe { Waker::from_raw(std::task::RawWaker::new(&ctx as *const HookCtx<'_> as *const (), &HOOK_VTABLE)) };
            let mut cx = Context::from_waker(&hw);
            let s = self.stream.as_mut().expect("stream polled after drop");
            let r = catch_unwind(AssertUnwindSafe(|| s.as_mut().poll_next(&mut cx)));
            drop(hw);
            self.held = held.into_inner();
            r
        } else {
            let mut cx = Context::from_waker(&self.waker);
            let s = self.stream.as_mut().expect("stream polled after drop");
            catch_unwind(AssertUnwindSafe(|| s.as_mut().poll_next(&mut cx)))
        };
        match r {
            Err(p) => {
                self.sh.borrow_mut().log.push(Ev::Panic);
                if let Some(s) = self.stream.take() {
                    let _ = catch_unwind(AssertUnwindSafe(move || drop(s)));
                }
                self.term = Some(Term::Panicked(panic_msg(p)));
            }
            Ok(Poll::Ready(Some(item))) => {
                self.last_was_item = true;
                match item {
                    SItem::Plain(r) => {
                        let f = r.idx as u32;
                        self.sh.borrow_mut().log.push(Ev::Yield(f));
                        self.clone_and_drop(&r);
                        self.held.push((f, r));
                    }
                    SItem::IntrSome(r) => {
                        let f = r.idx as u32;
                        self.sh.borrow_mut().log.push(Ev::YieldIntr(f));
                        self.clone_and_drop(&r);
                        self.held.push((f, r));
                    }
                    SItem::IntrNone => {
                        self.sh.borrow_mut().log.push(Ev::IntrNone);
                    }
                }
            }
            Ok(Poll::Ready(None)) => {
                self.last_was_item = false;
                self.ended = true;
                self.sh.borrow_mut().log.push(Ev::StreamNone);
            }
            Ok(Poll::Pending) => {
                self.last_was_item = false;
                let woken = self.flag.get();
                self.sh.borrow_mut().log.push(Ev::Pending { woken });
                if !woken {
                    self.idle_points += 1;
                }
            }
        }
    }

    /// See `CloneProbe`.
    fn clone_and_drop(&mut self, r: &FnRef<'g, TFn>) {
        self.yields_seen += 1;
        if self.yields_seen % 3 != 1 {
            return;
        }
        #[allow(unused_imports)]
        use self::{CloneNo as _, CloneYes as _};
        let c: Option<FnRef<'g, TFn>> = (&CloneProbe(r)).maybe_clone();
        if let Some(c) = c {
            FNREF_CLONES.with(|k| k.set(k.get() + 1));
            let _ = catch_unwind(AssertUnwindSafe(move || drop(c)));
        }
    }

    fn drop_ref(&mut self, i: usize) {
        let (f, r) = self.held.remove(i);
        let res = catch_unwind(AssertUnwindSafe(move || drop(r)));
        let flag = self.flag.get();
        let mut st = self.sh.borrow_mut();
        st.log.push(Ev::RefDrop(f, flag));
        if let Err(p) = res {
            st.log.push(Ev::Panic);
            drop(st);
            self.term = Some(Term::Panicked(format!("FnRef drop: {}", panic_msg(p))));
        }
    }

    fn drop_stream(&mut self) {
        if let Some(s) = self.stream.take() {
            self.sh.borrow_mut().log.push(Ev::RootDrop);
            if let Err(p) = catch_unwind(AssertUnwindSafe(move || drop(s))) {
                self.sh.borrow_mut().log.push(Ev::Panic);
                self.term = Some(Term::Panicked(format!("stream drop: {}", panic_msg(p))));
            }
        }
    }

    pub fn step(&mut self, tape: &mut Tape) {
        if self.term.is_some() {
            return;
        }
        let alive = self.stream.is_some() && !self.ended;
        let woken = self.flag.get();
        let can_poll = alive && (self.first || self.last_was_item || woken);
        let can_spur = alive && !can_poll && self.spurious_left > 0;
        let can_drop = self.allow_drop && alive;
        let can_signal = {
            let st = self.sh.borrow();
            alive && st.signal_plan == SignalPlan::Tape && !st.signal_sent && st.sig_tx.is_some()
        };
        let nheld = self.held.len();
        let nopt = can_poll as usize + nheld + can_spur as usize + can_drop as usize + can_signal as usize;
        if nopt == 0 {
            // end of the consumer program
            if self.stream.is_some() && !self.ended {
                self.term = Some(Term::Stalled);
            } else {
                self.term = Some(Term::Returned);
            }
            // A consumer that is not fused polls once more after `None` (a select loop, one
            // `next().await` too many). The Stream contract leaves the result open (None, Pending
            // or even a panic), but a *function* handed out by such a poll is a function handed
            // out twice by one streaming call (C03): it is logged as an ordinary yield and the
            // exactly-once oracle sees it. None / Pending / panic are not logged.
            if self.ended && self.term == Some(Term::Returned) {
                let extra = if self.spurious_left > 0 { 2 } else { 1 };
                for _ in 0..extra {
                    let Some(s) = self.stream.as_mut() else { break };
                    let mut cx = Context::from_waker(&self.waker);
                    let r = catch_unwind(AssertUnwindSafe(|| s.as_mut().poll_next(&mut cx)));
                    self.post_end_polls += 1;
                    POST_END_POLLS.with(|c| c.set(c.get() + 1));
                    match r {
                        Ok(Poll::Ready(Some(item))) => {
                            let mut st = self.sh.borrow_mut();
                            st.log.push(Ev::Poll);
                            match item {
                                SItem::Plain(r) | SItem::IntrSome(r) => {
                                    let f = r.idx as u32;
                                    st.log.push(Ev::Yield(f));
                                    drop(st);
                                    let _ = catch_unwind(AssertUnwindSafe(move || drop(r)));
                                    self.sh.borrow_mut().log.push(Ev::RefDrop(f, self.flag.get()));
                                }
                                SItem::IntrNone => {}
                            }
                        }
                        Ok(_) => {}
                        Err(_) => {
                            // polling after the end may panic under the Stream contract; the
                            // stream is leaked rather than dropped in a possibly broken state
                            if let Some(s) = self.stream.take() {
                                std::mem::forget(s);
                            }
                            break;
                        }
                    }
                }
            }
            // dropping an ended stream must be harmless too
            if let Some(s) = self.stream.take() {
                if let Err(p) = catch_unwind(AssertUnwindSafe(move || drop(s))) {
                    self.sh.borrow_mut().log.push(Ev::Panic);
                    self.term = Some(Term::Panicked(format!("stream drop: {}", panic_msg(p))));
                }
            }
            return;
        }
        #[derive(Clone, Copy, PartialEq)]
        enum Act {
            Poll,
            DropOne,
            DropAll,
            Spur,
            DropStream,
            Signal,
        }
        if self.greedy && can_poll {
            // take everything on offer first
            self.poll_once(false);
            return;
        }
        let mut acts: Vec<Act> = Vec::with_capacity(6);
        let bulk = self.batch && nheld >= 2 && tape.coin(if self.greedy { 1 } else { 1 }, if self.greedy { 2 } else { 4 });
        if bulk {
            acts.push(Act::DropAll);
        } else {
            if can_poll {
                acts.push(Act::Poll);
            }
            if nheld > 0 {
                acts.push(Act::DropOne);
            }
        }
        if can_spur && !bulk {
            acts.push(Act::Spur);
        }
        if can_drop && !bulk {
            acts.push(Act::DropStream);
        }
        if can_signal && !bulk {
            acts.push(Act::Signal);
        }
        let _ = nopt;
        match acts[tape.choose(acts.len())] {
            Act::Poll => self.poll_once(false),
            Act::DropOne => {
                let i = tape.choose(nheld);
                self.drop_ref(i);
                if self.batch && self.term.is_none() {
                    while !self.held.is_empty() && tape.coin(1, 3) {
                        let i = tape.choose(self.held.len());
                        self.drop_ref(i);
                        if self.term.is_some() {
                            break;
                        }
                    }
                }
            }
            Act::DropAll => {
                // bulk drop between two polls: all, half, a quarter or a random number of the
                // outstanding FnRefs, from the front or from the back
                let len = self.held.len();
                let k = match tape.choose(4) {
                    0 => len,
                    1 => (len / 2).max(1),
                    2 => (len / 4).max(1),
                    _ => 1 + tape.choose(len),
                }
                .min(len);
                let rev = tape.coin(1, 2);
                for _ in 0..k {
                    if self.held.is_empty() || self.term.is_some() {
                        break;
                    }
                    let i = if rev { self.held.len() - 1 } else { 0 };
                    self.drop_ref(i);
                }
            }
            Act::Spur => {
                self.spurious_left -= 1;
                self.poll_once(true);
            }
            Act::DropStream => self.drop_stream(),
            Act::Signal => self.sh.borrow_mut().send_signal(),
        }
    }

    pub fn run(&mut self, tape: &mut Tape) {
        while self.term.is_none() {
            self.step(tape);
        }
    }

    /// Drop the stream now and then every outstanding FnRef (history generator for C15).
    pub fn abort(&mut self) {
        if self.term.is_none() {
            self.drop_stream();
            while !self.held.is_empty() && self.term.is_none() {
                self.drop_ref(0);
            }
            if self.term.is_none() {
                self.term = Some(Term::Dropped);
            }
        }
    }
}
