//! C15 (reuse of a graph value after any history of runs) and C20 (simultaneous runs on one
//! graph), both on top of the director.

use std::panic::{catch_unwind, AssertUnwindSafe};
use std::time::Instant;

use futures::Stream;

use fn_graph::FnGraph;

use crate::apis::{sig_channel, start_call, start_stream, GraphRef, RunResult};
use crate::choice::{mix, Rng, Tape};
use crate::director::{CallDriver, Ev, RunState, Shared, StreamDriver, Term};
use crate::exec::{log_str, Trace};
use crate::gen::{self, apis_where, DagEnum, GraphProfile, RunProfile};
use crate::json::J;
use crate::model::{GraphSpec, EK};
use crate::oracles::{self, Ctx, Violation};
use crate::runner::{hash_of, par_for, set_what, Opts, Slot, Stats, Subject, Tier};
use crate::spec::{Api, Mode, RunSpec};
use crate::tfn::TFn;

pub enum AnyDriver<'g> {
    Call(CallDriver<'g, RunResult>),
    Stream(StreamDriver<'g>),
}

impl<'g> AnyDriver<'g> {
    pub fn start_shared(g: &'g FnGraph<TFn>, rs: &RunSpec, tape: &mut Tape) -> (AnyDriver<'g>, Shared) {
        let n = g.graph.node_count();
        let (tx, rx) = sig_channel(rs);
        let sh = RunState::new(n, rs, tx);
        if rs.api.is_stream() {
            let s = match std::panic::catch_unwind(std::panic::AssertUnwindSafe(|| start_stream(rs, g, rx))) {
                Ok(s) => s,
                Err(p) => {
                    sh.borrow_mut().log.push(Ev::Panic);
                    let mut d = StreamDriver::new(Box::pin(futures::stream::empty()), sh.clone(), rs, tape);
                    d.term = Some(Term::Panicked(format!("creating the stream: {}", crate::director::panic_msg(p))));
                    return (AnyDriver::Stream(d), sh);
                }
            };
            (AnyDriver::Stream(StreamDriver::new(s, sh.clone(), rs, tape)), sh)
        } else {
            let f = start_call(rs, GraphRef::Shared(g), &sh, rx);
            (AnyDriver::Call(CallDriver::new(f, sh.clone(), rs, n, tape)), sh)
        }
    }
    pub fn step(&mut self, tape: &mut Tape) {
        match self {
            AnyDriver::Call(d) => d.step(tape),
            AnyDriver::Stream(d) => d.step(tape),
        }
    }
    pub fn finished(&self) -> bool {
        match self {
            AnyDriver::Call(d) => d.finished(),
            AnyDriver::Stream(d) => d.finished(),
        }
    }
    pub fn abort(&mut self) {
        match self {
            AnyDriver::Call(d) => d.abort(),
            AnyDriver::Stream(d) => d.abort(),
        }
    }
    pub fn into_trace(self, sh: &Shared) -> Trace {
        let (term, result, q, polls) = match self {
            AnyDriver::Call(mut d) => (d.term.clone().unwrap(), d.result.take(), d.quiescent_points, d.polls),
            AnyDriver::Stream(d) => (d.term.clone().unwrap(), None, d.idle_points, d.polls),
        };
        let log = std::mem::take(&mut sh.borrow_mut().log);
        Trace { term, result, log, quiescent: q, polls, runs_after: None }
    }
}

/// Runs one case, optionally dropping the call / stream after `abort_after` director steps.
pub fn run_case_abort(g: &mut FnGraph<TFn>, rs: &RunSpec, tape: &mut Tape, abort_after: Option<usize>) -> Trace {
    let n = g.graph.node_count();
    let (tx, rx) = sig_channel(rs);
    let sh = RunState::new(n, rs, tx);
    let is_mut = rs.api.is_mut();
    if is_mut {
        for f in g.iter_insertion_mut() {
            f.runs = 0;
        }
    }
    let mut tr = {
        let mut d = if rs.api.is_stream() {
            match std::panic::catch_unwind(std::panic::AssertUnwindSafe(|| start_stream(rs, &*g, rx))) {
                Ok(s) => AnyDriver::Stream(StreamDriver::new(s, sh.clone(), rs, tape)),
                Err(p) => {
                    sh.borrow_mut().log.push(Ev::Panic);
                    let mut d = StreamDriver::new(Box::pin(futures::stream::empty()), sh.clone(), rs, tape);
                    d.term = Some(Term::Panicked(format!("creating the stream: {}", crate::director::panic_msg(p))));
                    AnyDriver::Stream(d)
                }
            }
        } else {
            let gr = if is_mut { GraphRef::Mut(&mut *g) } else { GraphRef::Shared(&*g) };
            AnyDriver::Call(CallDriver::new(start_call(rs, gr, &sh, rx), sh.clone(), rs, n, tape))
        };
        let mut steps = 0usize;
        while !d.finished() {
            if Some(steps) == abort_after {
                d.abort();
                break;
            }
            d.step(tape);
            steps += 1;
        }
        d.into_trace(&sh)
    };
    if is_mut {
        tr.runs_after = Some(g.iter_insertion().map(|f| f.runs).collect());
    }
    tr
}

fn same(a: &Trace, b: &Trace) -> bool {
    a.log == b.log && a.result == b.result && a.term == b.term && a.runs_after == b.runs_after
}

#[derive(Clone, Debug)]
pub struct HistRun {
    pub rs: RunSpec,
    pub tape: Vec<u32>,
    pub abort_after: Option<usize>,
}

fn hist_encode(h: &HistRun) -> String {
    format!(
        "{}@{}@{}",
        h.rs.encode(),
        h.tape.iter().map(|c| c.to_string()).collect::<Vec<_>>().join("."),
        h.abort_after.map(|a| a.to_string()).unwrap_or_else(|| "-".into())
    )
}

pub fn hist_decode(s: &str) -> Result<HistRun, String> {
    let mut it = s.split('@');
    let rs = RunSpec::decode(it.next().ok_or("hist rs")?)?;
    let tape = Tape::decode(it.next().ok_or("hist tape")?)?;
    let ab = it.next().ok_or("hist abort")?;
    Ok(HistRun { rs, tape, abort_after: if ab == "-" { None } else { Some(ab.parse().map_err(|_| "bad abort")?) } })
}

/// C15 on one (graph, history, probe). Returns Err(inconclusive reason) if the harness itself is
/// not deterministic on fresh graphs.
pub fn c15_case(gs: &GraphSpec, history: &[HistRun], probe: &RunSpec, probe_tape: &[u32], st: &mut Stats) -> Result<Option<(Violation, String)>, String> {
    let mut fresh1 = Subject::new(gs.clone()).map_err(|e| format!("build panicked: {e}"))?;
    let mut t1 = Tape::forced(probe_tape.to_vec());
    let tr1 = run_case_abort(&mut fresh1.g, probe, &mut t1, None);
    let mut fresh2 = Subject::new(gs.clone()).map_err(|e| format!("build panicked: {e}"))?;
    let mut t2 = Tape::forced(probe_tape.to_vec());
    let tr2 = run_case_abort(&mut fresh2.g, probe, &mut t2, None);
    if !same(&tr1, &tr2) {
        return Err(format!("two runs on two fresh graphs with the same tape differ (harness or library not deterministic): g={}|r={}", gs.encode(), probe.encode()));
    }
    let mut used = Subject::new(gs.clone()).map_err(|e| format!("build panicked: {e}"))?;
    for h in history {
        let mut t = Tape::forced(h.tape.clone());
        let tr = run_case_abort(&mut used.g, &h.rs, &mut t, h.abort_after);
        st.count(&format!("history.{}", match &tr.term {
            Term::Returned => {
                if oracles::any_failed(&tr) { "failed" } else if oracles::interrupted_effectively(&h.rs, &tr) { "interrupted" } else { "completed" }
            }
            Term::Dropped => "dropped_midway",
            Term::Deadlock => "deadlock",
            Term::Panicked(_) => "panicked",
            _ => "other",
        }));
        st.add("history.events", tr.log.len() as u64);
    }
    let mut t3 = Tape::forced(probe_tape.to_vec());
    let tr3 = run_case_abort(&mut used.g, probe, &mut t3, None);
    st.evaluations += 1;
    st.add("events", (tr1.log.len() + tr3.log.len()) as u64);
    st.count(&format!("api.{}", probe.api.name()));
    if gs.n >= 2 && tr1.log.iter().filter(|e| matches!(e, Ev::Start(_) | Ev::Yield(_))).count() >= 2 && !history.is_empty() {
        st.distinct_insert(hash_of(&(gs, history.iter().map(hist_encode).collect::<Vec<_>>(), probe.encode(), tr1.behaviour_hash())));
    }
    // a clone must behave like a freshly built graph as well - also one taken after the history,
    // and also while a run on the original is still in progress (a stream polled once, its first
    // FnRef held): the probe runs on the clone with the same tape
    if hash_of(&(gs, probe.encode())) % 3 == 0 {
        let waker = std::task::Waker::noop();
        let mut cx = std::task::Context::from_waker(waker);
        let mut in_progress = Box::pin(used.g.stream());
        let first = match catch_unwind(AssertUnwindSafe(|| in_progress.as_mut().poll_next(&mut cx))) {
            Ok(std::task::Poll::Ready(Some(r))) => Some(r),
            _ => None,
        };
        let mut cl = used.g.clone();
        let mut t4 = Tape::forced(probe_tape.to_vec());
        let tr4 = run_case_abort(&mut cl, probe, &mut t4, None);
        st.count("clone_probes_while_original_in_progress");
        drop(first);
        drop(in_progress);
        if !same(&tr1, &tr4) {
            let detail = format!(
                "run on a CLONE (taken after the history, while a stream on the original was in progress with one FnRef held) differs from the same run on a fresh graph. fresh: [{}] {:?} {:?} | clone: [{}] {:?} {:?}",
                log_str(&tr1.log, 80),
                tr1.term,
                tr1.result,
                log_str(&tr4.log, 80),
                tr4.term,
                tr4.result
            );
            let mut case = format!("g={}", gs.encode());
            for h in history {
                case.push_str(&format!("|h={}", hist_encode(h)));
            }
            case.push_str(&format!("|r={}|t={}", probe.encode(), probe_tape.iter().map(|c| c.to_string()).collect::<Vec<_>>().join(".")));
            return Ok(Some((Violation { prop: "C15", kind: "clone-behaves-differently", detail }, case)));
        }
    }
    if !same(&tr1, &tr3) {
        let detail = format!(
            "run on a reused graph differs from the same run on a fresh graph. fresh: [{}] {:?} {:?} | reused: [{}] {:?} {:?}",
            log_str(&tr1.log, 80),
            tr1.term,
            tr1.result,
            log_str(&tr3.log, 80),
            tr3.term,
            tr3.result
        );
        let mut case = format!("g={}", gs.encode());
        for h in history {
            case.push_str(&format!("|h={}", hist_encode(h)));
        }
        case.push_str(&format!("|r={}|t={}", probe.encode(), probe_tape.iter().map(|c| c.to_string()).collect::<Vec<_>>().join(".")));
        return Ok(Some((Violation { prop: "C15", kind: "reused-graph-behaves-differently", detail }, case)));
    }
    Ok(None)
}

fn random_history(rng: &mut Rng, n: usize, cfg_b: bool, seed: u64) -> Vec<HistRun> {
    let k = rng.range(1, 4);
    let mut prof = RunProfile::new(apis_where(cfg_b, |_| true));
    prof.fail_pct = 35;
    prof.intr_pct = 35;
    prof.drop_pct = 0;
    (0..k)
        .map(|j| {
            let rs = gen::random_run(rng, n, &prof, cfg_b);
            // record a concrete tape by running on a scratch graph? Not needed: a forced tape that
            // is too short continues with 0s, which is still a fixed schedule.
            let mut r = Rng::new(mix(seed, j as u64));
            let tape: Vec<u32> = (0..rng.range(0, 3 * n + 4)).map(|_| r.below(4) as u32).collect();
            let abort_after = if rng.chance(2, 5) { Some(rng.below(2 * n + 3)) } else { None };
            HistRun { rs, tape, abort_after }
        })
        .collect()
}

pub fn run_c15(opts: &Opts, cfg_b: bool) -> (Stats, Vec<String>, String) {
    let q = opts.tier == Tier::Quick;
    let deadline = Instant::now() + opts.time_cap;
    let cases = ((if q { 300_000 } else { 3_000_000 }) as f64 * opts.scale) as u64;
    let seed = opts.seed;
    let total = par_for(opts.jobs, cases, 32, Some(deadline), |st: &mut Stats, i: u64, slot: &Slot| {
        let mut rng = Rng::new(mix(seed, i));
        let gp = GraphProfile::sched(if q { 6 } else { 9 });
        let gs = gen::random_graph(&mut rng, &gp);
        let n = gs.n;
        let mut prof = RunProfile::new(apis_where(cfg_b, |_| true));
        prof.fail_pct = 20;
        prof.intr_pct = 25;
        let probe = gen::random_run(&mut rng, n, &prof, cfg_b);
        set_what(slot, &gs, &probe);
        // draw the probe tape by running it once on a scratch graph
        let probe_tape = {
            let Ok(mut scratch) = Subject::new(gs.clone()) else {
                st.count("skipped_build_panicked");
                return;
            };
            let mut t = Tape::random(mix(seed ^ 0xc15, i));
            let _ = run_case_abort(&mut scratch.g, &probe, &mut t, None);
            t.choices()
        };
        let history = random_history(&mut rng, n, cfg_b, mix(seed, i ^ 0xaaaa));
        match c15_case(&gs, &history, &probe, &probe_tape, st) {
            Err(m) => st.inconclusive.push(m),
            Ok(Some((v, case))) => st.violation(&v, case, String::new()),
            Ok(None) => {}
        }
        if st.samples.len() < 2 && i % 211 == 0 && n >= 3 {
            st.samples.push(J::obj(vec![
                ("graph", J::s(gs.encode())),
                ("history", J::Arr(history.iter().map(|h| J::s(hist_encode(h))).collect())),
                ("probe_run", J::s(probe.encode())),
                ("probe_tape", J::s(probe_tape.iter().map(|c| c.to_string()).collect::<Vec<_>>().join("."))),
            ]));
        }
    });
    let mut floors = Vec::new();
    let c = |k: &str| total.counters.get(k).copied().unwrap_or(0);
    for k in ["history.completed", "history.failed", "history.dropped_midway"] {
        if c(k) == 0 {
            floors.push(format!("no {k} run in any history"));
        }
    }
    if cfg_b && c("history.interrupted") == 0 {
        floors.push("no interrupted run in any history".into());
    }
    let rule = "case = (graph, history of 1-4 earlier runs on the SAME graph value drawn from all entry points: completed / failed / interrupted / call or stream dropped after j director steps with FnRefs outstanding, then a probe run with a recorded choice tape); the probe's (event log, returned value, termination, per-function mutation counts) on the reused graph must equal the same probe with the same tape on a freshly built graph (determinism of the fresh side is checked first by running it twice). distinct = distinct (graph, history, probe, behaviour); non-trivial = >= 2 functions handed out and non-empty history".to_string();
    (total, floors, rule)
}

// ------------------------------------------------------------------------------------------ C20

/// Drives several `&self` runs on one graph, the tape choosing which run acts next.
pub fn c20_case(sub: &Subject, specs: &[RunSpec], tape: &mut Tape, st: &mut Stats) -> Vec<(Violation, usize)> {
    let mut drivers: Vec<(AnyDriver<'_>, Shared)> = specs.iter().map(|rs| AnyDriver::start_shared(&sub.g, rs, tape)).collect();
    let mut switches = 0u64;
    let mut last = usize::MAX;
    loop {
        let active: Vec<usize> = (0..drivers.len()).filter(|&i| !drivers[i].0.finished()).collect();
        if active.is_empty() {
            break;
        }
        let k = active[tape.choose(active.len())];
        if k != last {
            switches += 1;
            last = k;
        }
        drivers[k].0.step(tape);
    }
    st.add("context_switches_between_runs", switches);
    let mut out = Vec::new();
    let mut overlapped = true;
    for (i, (d, sh)) in drivers.into_iter().enumerate() {
        let tr = d.into_trace(&sh);
        st.add("events", tr.log.len() as u64);
        st.count(&format!("api.{}", specs[i].api.name()));
        st.count(&format!("term.{}", crate::runner::term_name(&tr)));
        if tr.log.len() < 3 {
            overlapped = false;
        }
        let c = Ctx { gs: &sub.gs, ug: &sub.ug, built: &sub.built, rs: &specs[i] };
        let mut o = Vec::new();
        oracles::all_single_run(&c, &tr, &mut o);
        for mut x in o {
            x.detail = format!("[run {i} of {} simultaneous runs; {}] {} | its own events: {}", specs.len(), specs[i].api.name(), x.detail, log_str(&tr.log, 80));
            x.prop = "C20";
            out.push((x, i));
        }
    }
    if overlapped {
        st.count("cases_where_all_runs_were_active");
    }
    st.evaluations += 1;
    out
}

fn c20_case_string(gs: &GraphSpec, specs: &[RunSpec], tape: &Tape) -> String {
    let mut s = format!("g={}", gs.encode());
    for r in specs {
        s.push_str(&format!("|r={}", r.encode()));
    }
    s.push_str(&format!("|t={}", tape.encode()));
    s
}

pub fn run_c20(opts: &Opts, cfg_b: bool) -> (Stats, Vec<String>, String) {
    let q = opts.tier == Tier::Quick;
    let deadline = Instant::now() + opts.time_cap;
    let seed = opts.seed;
    let mut total = Stats::default();

    // exhaustive: every interleaving of two runs on every DAG with <= max_n nodes
    let max_n = if q { 2 } else { 3 };
    let mut graphs: Vec<GraphSpec> = Vec::new();
    for n in 1..=max_n {
        for edges in DagEnum::new(n) {
            let calls: Vec<(u32, u32, EK)> = edges.iter().map(|&(a, b)| (a as u32, b as u32, EK::Logic)).collect();
            for a in 0..2 {
                let (reads, writes) = if a == 0 { (vec![0; n], vec![0; n]) } else { ((0..n).map(|i| (i % 2) as crate::model::Mask).collect(), (0..n).map(|i| ((i + 1) % 2) as crate::model::Mask).collect()) };
                graphs.push(GraphSpec { n, calls: calls.clone(), reads, writes });
            }
        }
    }
    let pairs: Vec<(Api, Api)> = vec![
        (Api::ForEachWith, Api::ForEachWith),
        (Api::ForEach, Api::Stream),
        (Api::StreamWith, Api::StreamWith),
        (Api::TryForEachWith, Api::FoldAsyncWith),
        (Api::ControlWith, Api::TryFoldAsync),
        (Api::FoldAsync, Api::StreamWith),
    ];
    let ngraphs = graphs.len() as u64;
    let graphs_ref = &graphs;
    let pairs_ref = &pairs;
    let cap: u64 = if q { 4_000 } else { 40_000 };
    let exh = par_for(opts.jobs, ngraphs * pairs.len() as u64, 1, Some(deadline), |st: &mut Stats, i: u64, slot: &Slot| {
        let gs = graphs_ref[(i / pairs_ref.len() as u64) as usize].clone();
        let (a, b) = pairs_ref[(i % pairs_ref.len() as u64) as usize];
        let n = gs.n;
        let Ok(sub) = Subject::new(gs) else {
            st.count("skipped_build_panicked");
            return;
        };
        st.exhaustive_cases += 1;
        for variant in 0..3 {
            let mut ra = RunSpec::plain(a, n, Mode::Held);
            let mut rb = RunSpec::plain(b, n, Mode::Held);
            match variant {
                1 => {
                    rb.reverse = true;
                    ra.limit = Some(1);
                }
                2 => {
                    rb.fail = vec![0];
                    ra.reverse = true;
                }
                _ => {}
            }
            let specs = vec![ra.normalise(cfg_b), rb.normalise(cfg_b)];
            set_what(slot, &sub.gs, &specs[0]);
            let mut prefix: Vec<u32> = Vec::new();
            let mut count = 0u64;
            loop {
                let mut tape = Tape::forced(prefix);
                let found = c20_case(&sub, &specs, &mut tape, st);
                if sub.gs.n >= 2 {
                    st.distinct_insert(hash_of(&(sub.gs.encode(), specs[0].encode(), specs[1].encode(), tape.encode())));
                }
                for (v, _) in found.iter().take(1) {
                    st.violation(v, c20_case_string(&sub.gs, &specs, &tape), String::new());
                }
                count += 1;
                match tape.next_prefix() {
                    Some(p) => prefix = p,
                    None => break,
                }
                if count >= cap {
                    st.exhaustive_cut = true;
                    st.count("interleaving_enumerations_cut_by_cap");
                    break;
                }
            }
            st.add("exhaustive.interleavings", count);
            st.max("exhaustive.max_interleavings_per_case", count);
        }
    });
    let complete = !exh.exhaustive_cut && exh.exhaustive_cases == ngraphs * pairs.len() as u64 && !exh.counters.contains_key("stopped_by_time_cap");
    total.merge(exh);
    total.add("exhaustive.complete", complete as u64);
    total.add("exhaustive.max_n", max_n as u64);
    total.add("exhaustive.graphs", ngraphs);

    let cases = ((if q { 200_000 } else { 3_000_000 }) as f64 * opts.scale) as u64;
    let rnd = par_for(opts.jobs, cases, 32, Some(deadline), |st: &mut Stats, i: u64, slot: &Slot| {
        let mut rng = Rng::new(mix(seed, i));
        let gp = GraphProfile::sched(if q { 6 } else { 9 });
        let gs = gen::random_graph(&mut rng, &gp);
        let n = gs.n;
        let mut prof = RunProfile::new(apis_where(cfg_b, |a| !a.is_mut()));
        prof.fail_pct = 25;
        prof.intr_pct = 25;
        prof.drop_pct = 15;
        let k = rng.range(2, 3);
        let specs: Vec<RunSpec> = (0..k).map(|_| gen::random_run(&mut rng, n, &prof, cfg_b)).collect();
        set_what(slot, &gs, &specs[0]);
        let Ok(sub) = Subject::new(gs) else {
            st.count("skipped_build_panicked");
            return;
        };
        let mut tape = Tape::random(mix(seed ^ 0xc20, i));
        let found = c20_case(&sub, &specs, &mut tape, st);
        if n >= 2 {
            st.distinct_insert(hash_of(&(sub.gs.encode(), specs.iter().map(|s| s.encode()).collect::<Vec<_>>(), tape.encode())));
        }
        for (v, _) in found.iter().take(1) {
            st.violation(v, c20_case_string(&sub.gs, &specs, &tape), String::new());
        }
        if st.samples.len() < 2 && i % 311 == 0 && n >= 3 {
            st.samples.push(J::obj(vec![
                ("graph", J::s(sub.gs.encode())),
                ("simultaneous_runs", J::Arr(specs.iter().map(|s| J::s(s.encode())).collect())),
                ("shared_tape", J::s(tape.encode())),
            ]));
        }
    });
    total.merge(rnd);
    // phase 3: the same on real threads - k directors, each driving runs on ONE shared &FnGraph
    // (natively here; the thorough tier repeats it under ThreadSanitizer and Miri)
    let tcases = ((if q { 150 } else { 5_000 }) as f64 * opts.scale) as u64;
    let thr = par_for(opts.jobs.min(4), tcases, 2, Some(deadline), |st: &mut Stats, i: u64, _slot: &Slot| {
        let mut rng = Rng::new(mix(seed ^ 0x7468, i));
        let gs = if i % 3 == 2 {
            // three fully connected layers of 40: setting a run up takes long enough for two
            // threads to be inside their first use of the graph at the same time
            let mut g = GraphSpec::new(120);
            for a in 0..40u32 {
                for b in 0..40u32 {
                    g.calls.push((a, 40 + b, EK::Logic));
                    g.calls.push((40 + a, 80 + b, EK::Logic));
                }
            }
            g
        } else {
            crate::threads::small_conflicting_graph(&mut rng, 7)
        };
        let (found, n) = crate::threads::threads_directors(&gs, mix(seed, i), 3, if gs.n > 40 { 2 } else { 4 }, cfg_b);
        st.evaluations += n;
        st.add("threads.runs_on_shared_graph", n);
        st.count("threads.cases");
        for mut v in found.into_iter().take(1) {
            v.prop = "C20";
            let case = v.detail.split(" | ").last().unwrap_or("").to_string();
            st.violation(&v, case, String::new());
        }
    });
    total.merge(thr);
    let mut floors = Vec::new();
    let c = |k: &str| total.counters.get(k).copied().unwrap_or(0);
    if c("cases_where_all_runs_were_active") == 0 || c("context_switches_between_runs") == 0 {
        floors.push("runs never overlapped".into());
    }
    let rule = "case = (graph, 2-3 run specs of shared-reference entry points with different options: order, limit, failing functions, interrupts, dropped midway, one shared choice tape that also chooses which run acts next); every run's own event log is checked with all single-run oracles (C01-C10). phase 1 enumerates EVERY interleaving of two runs (6 api pairs x 3 option variants) on every DAG up to exhaustive.max_n nodes; phase 2 seeded random. distinct = distinct (graph, specs, tape); non-trivial = graph has >= 2 functions".to_string();
    (total, floors, rule)
}

// ------------------------------------------------------------------------------------------ replay

pub fn replay(prop: &str, parts: &[(String, String)], cfg_b: bool) -> i32 {
    let get_all = |k: &str| -> Vec<&str> { parts.iter().filter(|p| p.0 == k).map(|p| p.1.as_str()).collect() };
    let Some(g) = get_all("g").first().copied() else {
        println!("replay: no graph");
        return 2;
    };
    let gs = match GraphSpec::decode(g) {
        Ok(g) => g,
        Err(e) => {
            println!("replay: {e}");
            return 2;
        }
    };
    let tape = match Tape::decode(get_all("t").first().copied().unwrap_or("")) {
        Ok(t) => t,
        Err(e) => {
            println!("replay: {e}");
            return 2;
        }
    };
    let specs: Result<Vec<RunSpec>, String> = get_all("r").iter().map(|r| RunSpec::decode(r)).collect();
    let specs = match specs {
        Ok(s) => s,
        Err(e) => {
            println!("replay: {e}");
            return 2;
        }
    };
    let mut st = Stats::default();
    if prop == "C15" {
        let hist: Result<Vec<HistRun>, String> = get_all("h").iter().map(|h| hist_decode(h)).collect();
        let hist = match hist {
            Ok(h) => h,
            Err(e) => {
                println!("replay: {e}");
                return 2;
            }
        };
        match c15_case(&gs, &hist, &specs[0], &tape, &mut st) {
            Err(m) => {
                println!("replay: inconclusive: {m}");
                2
            }
            Ok(Some((v, _))) => {
                println!("violated: {} {}: {}", v.prop, v.kind, v.detail);
                1
            }
            Ok(None) => {
                println!("replay: property held on this case");
                0
            }
        }
    } else {
        let sub = match Subject::new(gs) {
            Ok(s) => s,
            Err(e) => {
                println!("replay: build panicked: {e}");
                return 2;
            }
        };
        let mut t = Tape::forced(tape);
        let found = c20_case(&sub, &specs, &mut t, &mut st);
        let _ = cfg_b;
        for (v, _) in &found {
            println!("violated: {} {}: {}", v.prop, v.kind, v.detail);
        }
        if found.is_empty() {
            println!("replay: property held on this case");
            0
        } else {
            1
        }
    }
}
