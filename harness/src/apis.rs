//! One adapter per public streaming entry point, mapping it onto a uniform result.

use std::future::Future;
use std::ops::ControlFlow;
use std::pin::Pin;

use fn_graph::{FnGraph, FnWrapper, FnWrapperMut, StreamOpts, StreamOutcome, StreamOutcomeState};
use futures::future::LocalBoxFuture;
use futures::StreamExt;

use crate::director::{BoxStream, Gate, SItem, Shared};
use crate::spec::{Api, Intr, RunSpec};
use crate::tfn::TFn;

#[derive(Clone, Debug, PartialEq, Eq, Hash)]
pub struct OutcomeView {
    /// 0 NotStarted, 1 Interrupted, 2 Finished
    pub state: u8,
    pub processed: Vec<u32>,
    pub not_processed: Vec<u32>,
    /// Fold value (the sequence of function ids folded).
    pub value: Option<Vec<u32>>,
}

#[derive(Clone, Debug, PartialEq, Eq, Hash)]
pub struct RunResult {
    pub outcome: Option<OutcomeView>,
    /// `Some` iff the call returned Err / Break-with-errors; one id per error value.
    pub errors: Option<Vec<u32>>,
    /// Control variants: Some(true) = Continue.
    pub control_continue: Option<bool>,
}

/// Counts outcomes carried through the StreamOutcome helper methods (evidence).
pub static OUTCOME_HELPER_PASSES: std::sync::atomic::AtomicU64 = std::sync::atomic::AtomicU64::new(0);

/// The outcome as a caller sees it who does not read the public fields directly: accessors, and the
/// value-transforming helpers (`map`, `replace`, `replace_with`), which must carry state and both id
/// lists through unchanged. Any disagreement with the fields poisons the state (9), so that the C09
/// state oracle reports it with the run's replay.
fn through_helpers<T>(o: StreamOutcome<T>) -> (StreamOutcome<T>, bool) {
    let st = o.state;
    let p = o.fn_ids_processed.clone();
    let np = o.fn_ids_not_processed.clone();
    let mut ok = o.state() == st && o.fn_ids_processed() == &p[..] && o.fn_ids_not_processed() == &np[..];
    macro_rules! same {
        ($x:expr) => {
            $x.state == st && $x.fn_ids_processed == p && $x.fn_ids_not_processed == np
        };
    }
    // map: value wrapped and unwrapped again
    let o = o.map(|v| (v, 7u8));
    ok &= same!(o) && o.value().1 == 7;
    let o = o.map(|(v, _)| v);
    ok &= same!(o);
    // replace: park the value, put it back
    let (o, v) = o.replace(11u16);
    ok &= same!(o) && *o.value() == 11;
    let (o, eleven) = o.replace(v);
    ok &= same!(o) && eleven == 11;
    // replace_with: extract a marker next to the value
    let (mut o, marker) = o.replace_with(|v| (v, 13u32));
    ok &= same!(o) && marker == 13;
    let _ = o.value_mut();
    ok &= same!(o);
    // constructors a caller may use to seed a fold: Default is an un-started outcome, finished_with a
    // finished one that carries exactly the ids given
    let d = StreamOutcome::<u8>::default();
    ok &= d.state == StreamOutcomeState::NotStarted && d.fn_ids_processed.is_empty() && d.fn_ids_not_processed.is_empty() && d.value == 0;
    let f = StreamOutcome::finished_with(5u8, p.clone());
    ok &= f.state == StreamOutcomeState::Finished && f.fn_ids_processed == p && f.fn_ids_not_processed.is_empty() && f.into_value() == 5;
    OUTCOME_HELPER_PASSES.fetch_add(1, std::sync::atomic::Ordering::Relaxed);
    (o, ok)
}

fn view<T>(o: StreamOutcome<T>, val: impl FnOnce(T) -> Option<Vec<u32>>) -> OutcomeView {
    let (o, helpers_ok) = through_helpers(o);
    let StreamOutcome { value, state, fn_ids_processed, fn_ids_not_processed } = o;
    OutcomeView {
        state: match state {
            _ if !helpers_ok => 9,
            StreamOutcomeState::NotStarted => 0,
            StreamOutcomeState::Interrupted => 1,
            StreamOutcomeState::Finished => 2,
        },
        processed: fn_ids_processed.iter().map(|i| i.index() as u32).collect(),
        not_processed: fn_ids_not_processed.iter().map(|i| i.index() as u32).collect(),
        value: val(value),
    }
}

#[cfg(feature = "b")]
pub type SigRx = tokio::sync::mpsc::Receiver<interruptible::InterruptSignal>;
#[cfg(not(feature = "b"))]
pub type SigRx = ();

/// Creates the interrupt channel a spec needs (config B only).
pub fn sig_channel(spec: &RunSpec) -> (Option<crate::director::SigTx>, Option<SigRx>) {
    #[cfg(feature = "b")]
    {
        if spec.intr != Intr::None {
            let (tx, rx) = tokio::sync::mpsc::channel(16);
            return (Some(tx), Some(rx));
        }
    }
    let _ = spec;
    (None, None)
}

/// Builds the options for a run. The three setters commute as far as the documentation says, so
/// they are called in an order that depends on the run spec (all six orders occur): a setter that
/// resets what an earlier one stored shows up as a run with the wrong direction / strategy / flag.
pub fn opts<'a>(spec: &RunSpec, rx: Option<SigRx>) -> StreamOpts<'a, 'a> {
    let mut o = StreamOpts::new();
    let order: [u8; 3] = match crate::runner::hash_of(spec) % 6 {
        0 => [0, 1, 2],
        1 => [0, 2, 1],
        2 => [1, 0, 2],
        3 => [1, 2, 0],
        4 => [2, 0, 1],
        _ => [2, 1, 0],
    };
    #[cfg(feature = "b")]
    let mut rx = rx;
    for step in order {
        match step {
            0 => {
                if spec.reverse {
                    o = o.rev();
                    // "Multiple calls to this function will be the same as one call"
                    if (crate::runner::hash_of(spec) >> 5) & 3 == 0 {
                        o = o.rev();
                    }
                }
            }
            1 => {
                #[cfg(feature = "b")]
                {
                    use interruptible::InterruptibilityState;
                    match (spec.intr, rx.take()) {
                        (Intr::None, _) | (_, None) => {}
                        (Intr::Ignore, Some(rx)) => {
                            o = o.interruptibility_state(InterruptibilityState::new_ignore_interruptions(rx.into()));
                        }
                        (Intr::FinishCurrent, Some(rx)) => {
                            o = o.interruptibility_state(InterruptibilityState::new_finish_current(rx.into()));
                        }
                        (Intr::PollNextN(k), Some(rx)) => {
                            o = o.interruptibility_state(InterruptibilityState::new_poll_next_n(rx.into(), k));
                        }
                    }
                }
            }
            _ => {
                #[cfg(feature = "b")]
                {
                    o = o.interrupted_next_item_include(spec.include);
                }
            }
        }
    }
    #[cfg(not(feature = "b"))]
    {
        let _ = rx;
        let _: Intr = spec.intr;
    }
    o
}

pub enum GraphRef<'g> {
    Shared(&'g FnGraph<TFn>),
    Mut(&'g mut FnGraph<TFn>),
}

pub type CallFut<'g> = Pin<Box<dyn Future<Output = RunResult> + 'g>>;

fn fold_ok(o: StreamOutcome<Vec<u32>>) -> RunResult {
    RunResult { outcome: Some(view(o, Some)), errors: None, control_continue: None }
}

fn try_fold_res(r: Result<StreamOutcome<Vec<u32>>, u32>) -> RunResult {
    match r {
        Ok(o) => fold_ok(o),
        Err(e) => RunResult { outcome: None, errors: Some(vec![e]), control_continue: None },
    }
}

fn try_each_res(r: Result<StreamOutcome<()>, (StreamOutcome<()>, Vec<u32>)>) -> RunResult {
    match r {
        Ok(o) => RunResult { outcome: Some(view(o, |()| None)), errors: None, control_continue: None },
        Err((o, es)) => RunResult { outcome: Some(view(o, |()| None)), errors: Some(es), control_continue: None },
    }
}

fn control_res(r: ControlFlow<(StreamOutcome<()>, Vec<u32>), StreamOutcome<()>>) -> RunResult {
    match r {
        ControlFlow::Continue(o) => {
            RunResult { outcome: Some(view(o, |()| None)), errors: None, control_continue: Some(true) }
        }
        ControlFlow::Break((o, es)) => {
            RunResult { outcome: Some(view(o, |()| None)), errors: Some(es), control_continue: Some(false) }
        }
    }
}

async fn gate_res(g: Gate, f: u32) -> Result<(), u32> {
    if g.await {
        Ok(())
    } else {
        Err(f)
    }
}

async fn gate_cf(g: Gate, f: u32) -> ControlFlow<u32, ()> {
    if g.await {
        ControlFlow::Continue(())
    } else {
        ControlFlow::Break(f)
    }
}

async fn gate_unit(g: Gate) {
    g.await;
}

/// Starts a call-style API. Panics if the graph reference kind does not match the API.
pub fn start_call<'g>(spec: &RunSpec, g: GraphRef<'g>, sh: &Shared, rx: Option<SigRx>) -> CallFut<'g> {
    let api = spec.api;
    let limit = spec.limit;
    let sh = sh.clone();
    match g {
        GraphRef::Shared(g) => {
            assert!(!api.is_mut(), "shared graph with a _mut api");
            match api {
                Api::FoldAsync => Box::pin(async move {
                    fold_ok(
                        g.fold_async(Vec::new(), |mut seed: Vec<u32>, f: FnWrapper<'_, '_, TFn>| -> LocalBoxFuture<'_, Vec<u32>> {
                            let idx = f.idx as u32;
                            let gate = Gate::new(&sh, idx as usize);
                            Box::pin(async move {
                                gate.await;
                                seed.push(idx);
                                seed
                            })
                        })
                        .await,
                    )
                }),
                Api::FoldAsyncWith => {
                    let o = opts(spec, rx);
                    Box::pin(async move {
                        fold_ok(
                            g.fold_async_with(Vec::new(), o, |mut seed: Vec<u32>, f: FnWrapper<'_, '_, TFn>| -> LocalBoxFuture<'_, Vec<u32>> {
                                let idx = f.idx as u32;
                                let gate = Gate::new(&sh, idx as usize);
                                Box::pin(async move {
                                    gate.await;
                                    seed.push(idx);
                                    seed
                                })
                            })
                            .await,
                        )
                    })
                }
                Api::TryFoldAsync => Box::pin(async move {
                    try_fold_res(
                        g.try_fold_async(Vec::new(), |mut seed: Vec<u32>, f: FnWrapper<'_, '_, TFn>| -> LocalBoxFuture<'_, Result<Vec<u32>, u32>> {
                            let idx = f.idx as u32;
                            let gate = Gate::new(&sh, idx as usize);
                            Box::pin(async move {
                                if gate.await {
                                    seed.push(idx);
                                    Ok(seed)
                                } else {
                                    Err(idx)
                                }
                            })
                        })
                        .await,
                    )
                }),
                Api::TryFoldAsyncWith => {
                    let o = opts(spec, rx);
                    Box::pin(async move {
                        try_fold_res(
                            g.try_fold_async_with(Vec::new(), o, |mut seed: Vec<u32>, f: FnWrapper<'_, '_, TFn>| -> LocalBoxFuture<'_, Result<Vec<u32>, u32>> {
                                let idx = f.idx as u32;
                                let gate = Gate::new(&sh, idx as usize);
                                Box::pin(async move {
                                    if gate.await {
                                        seed.push(idx);
                                        Ok(seed)
                                    } else {
                                        Err(idx)
                                    }
                                })
                            })
                            .await,
                        )
                    })
                }
                Api::ForEach => Box::pin(async move {
                    let o = g.for_each_concurrent(limit, |f: &TFn| gate_unit(Gate::new(&sh, f.idx))).await;
                    RunResult { outcome: Some(view(o, |()| None)), errors: None, control_continue: None }
                }),
                Api::ForEachWith => {
                    let o = opts(spec, rx);
                    Box::pin(async move {
                        let o = g.for_each_concurrent_with(limit, o, |f: &TFn| gate_unit(Gate::new(&sh, f.idx))).await;
                        RunResult { outcome: Some(view(o, |()| None)), errors: None, control_continue: None }
                    })
                }
                Api::TryForEach => Box::pin(async move {
                    try_each_res(
                        g.try_for_each_concurrent(limit, |f: &TFn| gate_res(Gate::new(&sh, f.idx), f.idx as u32)).await,
                    )
                }),
                Api::TryForEachWith => {
                    let o = opts(spec, rx);
                    Box::pin(async move {
                        try_each_res(
                            g.try_for_each_concurrent_with(limit, o, |f: &TFn| {
                                gate_res(Gate::new(&sh, f.idx), f.idx as u32)
                            })
                            .await,
                        )
                    })
                }
                Api::Control => Box::pin(async move {
                    control_res(
                        g.try_for_each_concurrent_control(limit, |f: &TFn| gate_cf(Gate::new(&sh, f.idx), f.idx as u32))
                            .await,
                    )
                }),
                Api::ControlWith => {
                    let o = opts(spec, rx);
                    Box::pin(async move {
                        control_res(
                            g.try_for_each_concurrent_control_with(limit, o, |f: &TFn| {
                                gate_cf(Gate::new(&sh, f.idx), f.idx as u32)
                            })
                            .await,
                        )
                    })
                }
                _ => panic!("start_call: {:?} is not a shared-reference call-style api", api),
            }
        }
        GraphRef::Mut(g) => {
            assert!(api.is_mut(), "mutable graph with a non-mut api");
            match api {
                Api::FoldAsyncMut => Box::pin(async move {
                    fold_ok(
                        g.fold_async_mut(Vec::new(), |mut seed: Vec<u32>, mut f: FnWrapperMut<'_, '_, TFn>| -> LocalBoxFuture<'_, Vec<u32>> {
                            f.runs += 1;
                            let idx = f.idx as u32;
                            let gate = Gate::new(&sh, idx as usize);
                            Box::pin(async move {
                                gate.await;
                                seed.push(idx);
                                seed
                            })
                        })
                        .await,
                    )
                }),
                Api::FoldAsyncMutWith => {
                    let o = opts(spec, rx);
                    Box::pin(async move {
                        fold_ok(
                            g.fold_async_mut_with(Vec::new(), o, |mut seed: Vec<u32>, mut f: FnWrapperMut<'_, '_, TFn>| -> LocalBoxFuture<'_, Vec<u32>> {
                                f.runs += 1;
                                let idx = f.idx as u32;
                                let gate = Gate::new(&sh, idx as usize);
                                Box::pin(async move {
                                    gate.await;
                                    seed.push(idx);
                                    seed
                                })
                            })
                            .await,
                        )
                    })
                }
                Api::TryFoldAsyncMut => Box::pin(async move {
                    try_fold_res(
                        g.try_fold_async_mut(Vec::new(), |mut seed: Vec<u32>, mut f: FnWrapperMut<'_, '_, TFn>| -> LocalBoxFuture<'_, Result<Vec<u32>, u32>> {
                            f.runs += 1;
                            let idx = f.idx as u32;
                            let gate = Gate::new(&sh, idx as usize);
                            Box::pin(async move {
                                if gate.await {
                                    seed.push(idx);
                                    Ok(seed)
                                } else {
                                    Err(idx)
                                }
                            })
                        })
                        .await,
                    )
                }),
                Api::TryFoldAsyncMutWith => {
                    let o = opts(spec, rx);
                    Box::pin(async move {
                        try_fold_res(
                            g.try_fold_async_mut_with(Vec::new(), o, |mut seed: Vec<u32>, mut f: FnWrapperMut<'_, '_, TFn>| -> LocalBoxFuture<'_, Result<Vec<u32>, u32>> {
                                f.runs += 1;
                                let idx = f.idx as u32;
                                let gate = Gate::new(&sh, idx as usize);
                                Box::pin(async move {
                                    if gate.await {
                                        seed.push(idx);
                                        Ok(seed)
                                    } else {
                                        Err(idx)
                                    }
                                })
                            })
                            .await,
                        )
                    })
                }
                Api::ForEachMut => Box::pin(async move {
                    let o = g
                        .for_each_concurrent_mut(limit, |f: &mut TFn| {
                            f.runs += 1;
                            gate_unit(Gate::new(&sh, f.idx))
                        })
                        .await;
                    RunResult { outcome: Some(view(o, |()| None)), errors: None, control_continue: None }
                }),
                Api::ForEachMutWith => {
                    let o = opts(spec, rx);
                    Box::pin(async move {
                        let o = g
                            .for_each_concurrent_mut_with(limit, o, |f: &mut TFn| {
                                f.runs += 1;
                                gate_unit(Gate::new(&sh, f.idx))
                            })
                            .await;
                        RunResult { outcome: Some(view(o, |()| None)), errors: None, control_continue: None }
                    })
                }
                Api::TryForEachMut => Box::pin(async move {
                    try_each_res(
                        g.try_for_each_concurrent_mut(limit, |f: &mut TFn| {
                            f.runs += 1;
                            gate_res(Gate::new(&sh, f.idx), f.idx as u32)
                        })
                        .await,
                    )
                }),
                Api::TryForEachMutWith => {
                    let o = opts(spec, rx);
                    Box::pin(async move {
                        try_each_res(
                            g.try_for_each_concurrent_mut_with(limit, o, |f: &mut TFn| {
                                f.runs += 1;
                                gate_res(Gate::new(&sh, f.idx), f.idx as u32)
                            })
                            .await,
                        )
                    })
                }
                Api::ControlMut => Box::pin(async move {
                    control_res(
                        g.try_for_each_concurrent_control_mut(limit, |f: &mut TFn| {
                            f.runs += 1;
                            gate_cf(Gate::new(&sh, f.idx), f.idx as u32)
                        })
                        .await,
                    )
                }),
                Api::ControlMutWith => {
                    let o = opts(spec, rx);
                    Box::pin(async move {
                        control_res(
                            g.try_for_each_concurrent_control_mut_with(limit, o, |f: &mut TFn| {
                                f.runs += 1;
                                gate_cf(Gate::new(&sh, f.idx), f.idx as u32)
                            })
                            .await,
                        )
                    })
                }
                _ => panic!("start_call: {:?} is not a _mut call-style api", api),
            }
        }
    }
}

/// Starts one of the `stream*` entry points.
pub fn start_stream<'g>(spec: &RunSpec, g: &'g FnGraph<TFn>, rx: Option<SigRx>) -> BoxStream<'g> {
    match spec.api {
        Api::Stream => Box::pin(g.stream().map(SItem::Plain)),
        Api::StreamWith => Box::pin(g.stream_with(opts(spec, rx)).map(SItem::Plain)),
        #[cfg(feature = "b")]
        Api::StreamIntr => Box::pin(g.stream_interruptible().map(intr_item)),
        #[cfg(feature = "b")]
        Api::StreamWithIntr => Box::pin(g.stream_with_interruptible(opts(spec, rx)).map(intr_item)),
        other => panic!("start_stream: {:?} not available in this configuration", other),
    }
}

#[cfg(feature = "b")]
fn intr_item<'g>(p: interruptible::PollOutcome<fn_graph::FnRef<'g, TFn>>) -> SItem<'g> {
    match p {
        interruptible::PollOutcome::NoInterrupt(r) => SItem::Plain(r),
        interruptible::PollOutcome::Interrupted(Some(r)) => SItem::IntrSome(r),
        interruptible::PollOutcome::Interrupted(None) => SItem::IntrNone,
    }
}
