//! Graph specifications and the reference model.
//!
//! Nothing in this file consults `fn_graph` for a verdict: reachability, conflicts, ranks and the
//! expected data edges are all recomputed from the specification the harness generated.

use std::fmt::Write as _;

/// Kind of a user edge.
#[derive(Clone, Copy, PartialEq, Eq, Debug, Hash, PartialOrd, Ord)]
pub enum EK {
    Logic,
    Contains,
}

/// Kind of a built edge.
#[derive(Clone, Copy, PartialEq, Eq, Debug, Hash, PartialOrd, Ord)]
pub enum BK {
    Logic,
    Contains,
    Data,
}

impl From<EK> for BK {
    fn from(k: EK) -> BK {
        match k {
            EK::Logic => BK::Logic,
            EK::Contains => BK::Contains,
        }
    }
}

/// Set of data types (bit t = data type t, up to 128 distinct types).
pub type Mask = u128;

/// A graph as a sequence of builder calls.
///
/// `calls` may contain edges the builder must reject (self edges, cycle closing edges) and
/// repeated pairs; the model works out which are accepted.
#[derive(Clone, Debug, PartialEq, Eq, Hash)]
pub struct GraphSpec {
    pub n: usize,
    pub calls: Vec<(u32, u32, EK)>,
    /// Bit `t` set: function reads data type `t` (0..128).
    pub reads: Vec<Mask>,
    /// Bit `t` set: function writes data type `t` (0..128).
    pub writes: Vec<Mask>,
}

impl GraphSpec {
    pub fn new(n: usize) -> Self {
        GraphSpec {
            n,
            calls: Vec::new(),
            reads: vec![0; n],
            writes: vec![0; n],
        }
    }

    pub fn edge(mut self, a: usize, b: usize) -> Self {
        self.calls.push((a as u32, b as u32, EK::Logic));
        self
    }

    pub fn conflict(&self, u: usize, v: usize) -> bool {
        u != v
            && ((self.reads[u] & self.writes[v])
                | (self.writes[u] & self.reads[v])
                | (self.writes[u] & self.writes[v]))
                != 0
    }

    /// Compact textual form used in replay files: `n=3;e=0>2L,1>2C;a=r1w0,r0w2,r0w0`.
    pub fn encode(&self) -> String {
        let mut s = String::new();
        write!(s, "n={};e=", self.n).unwrap();
        for (i, (a, b, k)) in self.calls.iter().enumerate() {
            if i > 0 {
                s.push(',');
            }
            write!(
                s,
                "{}>{}{}",
                a,
                b,
                match k {
                    EK::Logic => 'L',
                    EK::Contains => 'C',
                }
            )
            .unwrap();
        }
        s.push_str(";a=");
        // run-length encode identical accesses to keep wide graphs short
        let mut i = 0;
        let mut first = true;
        while i < self.n {
            let mut j = i;
            while j < self.n && self.reads[j] == self.reads[i] && self.writes[j] == self.writes[i] {
                j += 1;
            }
            if !first {
                s.push(',');
            }
            first = false;
            write!(s, "r{}w{}", self.reads[i], self.writes[i]).unwrap();
            if j - i > 1 {
                write!(s, "x{}", j - i).unwrap();
            }
            i = j;
        }
        s
    }

    pub fn decode(s: &str) -> Result<GraphSpec, String> {
        let mut n = None;
        let mut calls = Vec::new();
        let mut reads = Vec::new();
        let mut writes = Vec::new();
        for part in s.split(';') {
            let (k, v) = part.split_once('=').ok_or_else(|| format!("bad part {part}"))?;
            match k {
                "n" => n = Some(v.parse::<usize>().map_err(|e| e.to_string())?),
                "e" => {
                    for e in v.split(',').filter(|e| !e.is_empty()) {
                        let (a, rest) = e.split_once('>').ok_or("bad edge")?;
                        let (b, kind) = rest.split_at(rest.len() - 1);
                        let kind = match kind {
                            "L" => EK::Logic,
                            "C" => EK::Contains,
                            _ => return Err(format!("bad edge kind {e}")),
                        };
                        calls.push((
                            a.parse().map_err(|_| "bad edge src")?,
                            b.parse().map_err(|_| "bad edge dst")?,
                            kind,
                        ));
                    }
                }
                "a" => {
                    for a in v.split(',').filter(|e| !e.is_empty()) {
                        let a = a.strip_prefix('r').ok_or("bad access")?;
                        let (r, rest) = a.split_once('w').ok_or("bad access")?;
                        let (w, rep) = match rest.split_once('x') {
                            Some((w, rep)) => (w, rep.parse::<usize>().map_err(|_| "bad rep")?),
                            None => (rest, 1),
                        };
                        for _ in 0..rep {
                            reads.push(r.parse().map_err(|_| "bad r")?);
                            writes.push(w.parse().map_err(|_| "bad w")?);
                        }
                    }
                }
                _ => return Err(format!("unknown key {k}")),
            }
        }
        let n = n.ok_or("no n")?;
        if reads.len() != n {
            return Err(format!("access list has {} entries, n={}", reads.len(), n));
        }
        Ok(GraphSpec { n, calls, reads, writes })
    }
}

/// Dense bit matrix.
#[derive(Clone, Debug)]
pub struct BitMat {
    pub n: usize,
    w: usize,
    bits: Vec<u64>,
}

impl BitMat {
    pub fn new(n: usize) -> Self {
        let w = (n + 63) / 64;
        BitMat { n, w: w.max(1), bits: vec![0; n * w.max(1)] }
    }
    #[inline]
    pub fn get(&self, i: usize, j: usize) -> bool {
        (self.bits[i * self.w + j / 64] >> (j % 64)) & 1 == 1
    }
    #[inline]
    pub fn set(&mut self, i: usize, j: usize) {
        self.bits[i * self.w + j / 64] |= 1 << (j % 64);
    }
    /// row i |= row j
    pub fn or_row(&mut self, i: usize, j: usize) {
        for k in 0..self.w {
            let v = self.bits[j * self.w + k];
            self.bits[i * self.w + k] |= v;
        }
    }
    pub fn row_iter(&self, i: usize) -> impl Iterator<Item = usize> + '_ {
        (0..self.n).filter(move |&j| self.get(i, j))
    }
}

/// What the builder must do with each call, and the user's effective graph.
#[derive(Clone, Debug)]
pub struct UserGraph {
    pub n: usize,
    /// Per call: accepted?
    pub accepted: Vec<bool>,
    /// Effective user edges in the order daggy keeps them (first acceptance position, last kind).
    pub edges: Vec<(usize, usize, EK)>,
    /// reach.get(a, b): non-empty user path a -> b.
    pub reach: BitMat,
    pub succ: Vec<Vec<usize>>,
    pub pred: Vec<Vec<usize>>,
}

impl UserGraph {
    pub fn from_spec(spec: &GraphSpec) -> UserGraph {
        let n = spec.n;
        // Fast path: distinct pairs, no self edge, acyclic as a whole => every call is accepted
        // (every prefix of an acyclic edge set is acyclic) and edges keep call order.
        {
            let mut pairs: Vec<(u32, u32)> = spec.calls.iter().map(|c| (c.0, c.1)).collect();
            pairs.sort_unstable();
            let distinct = pairs.windows(2).all(|w| w[0] != w[1]) && spec.calls.iter().all(|c| c.0 != c.1);
            if distinct {
                let mut succ: Vec<Vec<usize>> = vec![Vec::new(); n];
                let mut pred: Vec<Vec<usize>> = vec![Vec::new(); n];
                for &(a, b, _) in &spec.calls {
                    succ[a as usize].push(b as usize);
                    pred[b as usize].push(a as usize);
                }
                if topo_order(n, &succ, &pred).is_some() {
                    let edges = spec.calls.iter().map(|&(a, b, k)| (a as usize, b as usize, k)).collect();
                    return Self::from_edges(n, edges, vec![true; spec.calls.len()]);
                }
            }
        }
        let mut edges: Vec<(usize, usize, EK)> = Vec::new();
        let mut accepted = Vec::with_capacity(spec.calls.len());
        let mut succ: Vec<Vec<usize>> = vec![Vec::new(); n];
        // Plain DFS reachability at each call (n is small wherever rejected calls are generated;
        // generators of big graphs only emit forward edges on a known topological order, so the
        // DFS is cheap there too because we only search from b for a).
        for &(a, b, k) in &spec.calls {
            let (a, b) = (a as usize, b as usize);
            if let Some(e) = edges.iter_mut().find(|e| e.0 == a && e.1 == b) {
                // existing pair: kind updated in place, never a cycle.
                e.2 = k;
                accepted.push(true);
                continue;
            }
            let cyc = a == b || dfs_reaches(&succ, b, a);
            if cyc {
                accepted.push(false);
            } else {
                accepted.push(true);
                edges.push((a, b, k));
                succ[a].push(b);
            }
        }
        Self::from_edges(n, edges, accepted)
    }

    /// Fast path for generators that guarantee distinct, acyclic pairs.
    pub fn from_edges(n: usize, edges: Vec<(usize, usize, EK)>, accepted: Vec<bool>) -> UserGraph {
        let mut succ: Vec<Vec<usize>> = vec![Vec::new(); n];
        let mut pred: Vec<Vec<usize>> = vec![Vec::new(); n];
        for &(a, b, _) in &edges {
            succ[a].push(b);
            pred[b].push(a);
        }
        let order = topo_order(n, &succ, &pred).expect("model: user graph must be acyclic");
        let mut reach = BitMat::new(n);
        for &u in order.iter().rev() {
            for &v in &succ[u] {
                reach.set(u, v);
                reach.or_row(u, v);
            }
        }
        UserGraph { n, accepted, edges, reach, succ, pred }
    }

    /// Longest chain of user edges ending at each function.
    pub fn ranks(&self) -> Vec<usize> {
        let order = topo_order(self.n, &self.succ, &self.pred).unwrap();
        let mut r = vec![0usize; self.n];
        for &u in &order {
            for &v in &self.succ[u] {
                r[v] = r[v].max(r[u] + 1);
            }
        }
        r
    }

    /// Number of root-to-node paths summed over nodes, saturating. Used to keep graphs whose path
    /// count is exponential away from every check but C18.
    pub fn path_count(&self) -> u64 {
        let order = topo_order(self.n, &self.succ, &self.pred).unwrap();
        let mut p = vec![0u64; self.n];
        let mut total = 0u64;
        for &u in &order {
            if self.pred[u].is_empty() {
                p[u] = 1;
            }
            total = total.saturating_add(p[u]);
            for &v in &self.succ[u] {
                p[v] = p[v].saturating_add(p[u]);
            }
        }
        total
    }
}

fn dfs_reaches(succ: &[Vec<usize>], from: usize, to: usize) -> bool {
    let mut seen = vec![false; succ.len()];
    let mut st = vec![from];
    while let Some(u) = st.pop() {
        if u == to {
            return true;
        }
        if std::mem::replace(&mut seen[u], true) {
            continue;
        }
        st.extend(succ[u].iter().copied());
    }
    false
}

pub fn topo_order(n: usize, succ: &[Vec<usize>], pred: &[Vec<usize>]) -> Option<Vec<usize>> {
    let mut indeg: Vec<usize> = pred.iter().map(|p| p.len()).collect();
    let mut q: Vec<usize> = (0..n).filter(|&i| indeg[i] == 0).collect();
    let mut out = Vec::with_capacity(n);
    while let Some(u) = q.pop() {
        out.push(u);
        for &v in &succ[u] {
            indeg[v] -= 1;
            if indeg[v] == 0 {
                q.push(v);
            }
        }
    }
    (out.len() == n).then_some(out)
}

/// The graph `build()` returned, as read from the public `graph` field.
#[derive(Clone, Debug)]
pub struct Built {
    pub n: usize,
    pub edges: Vec<(usize, usize, BK)>,
    pub succ: Vec<Vec<usize>>,
    pub pred: Vec<Vec<usize>>,
}

impl Built {
    pub fn new(n: usize, edges: Vec<(usize, usize, BK)>) -> Built {
        let mut succ = vec![Vec::new(); n];
        let mut pred = vec![Vec::new(); n];
        for &(a, b, _) in &edges {
            succ[a].push(b);
            pred[b].push(a);
        }
        Built { n, edges, succ, pred }
    }

    pub fn is_acyclic(&self) -> bool {
        topo_order(self.n, &self.succ, &self.pred).is_some()
    }

    /// reach over all built edges (requires acyclic).
    pub fn reach(&self) -> BitMat {
        let order = topo_order(self.n, &self.succ, &self.pred).expect("acyclic");
        let mut reach = BitMat::new(self.n);
        for &u in order.iter().rev() {
            for &v in &self.succ[u] {
                reach.set(u, v);
                reach.or_row(u, v);
            }
        }
        reach
    }

    /// Predecessors in run direction.
    pub fn preds(&self, reverse: bool) -> &Vec<Vec<usize>> {
        if reverse {
            &self.succ
        } else {
            &self.pred
        }
    }
    pub fn succs(&self, reverse: bool) -> &Vec<Vec<usize>> {
        if reverse {
            &self.pred
        } else {
            &self.succ
        }
    }
}

/// Independent re-implementation of the data edge rule (C12): returns the expected *set* of data
/// edges, given the user's effective graph and the access declarations.
///
/// Rule: order functions by (rank, insertion index). Process positions from the last to the first;
/// for position i scan positions j > i in ascending order; add i -> j when the two conflict and
/// there is no path i -> j over the user edges plus the data edges added so far.
pub fn expected_data_edges(spec: &GraphSpec, ug: &UserGraph) -> Vec<(usize, usize)> {
    let n = spec.n;
    let ranks = ug.ranks();
    let mut pos: Vec<usize> = (0..n).collect();
    pos.sort_by_key(|&i| (ranks[i], i));
    // reach over current graph, maintained incrementally: since all edges go forward in `pos`
    // order and we process i descending, reach rows of positions > i are final when i is handled.
    let mut reach = ug.reach.clone();
    // Note: ug.reach rows for nodes later in pos order don't include data edges yet; rebuild rows
    // as we go: row(u) = union over succ (user + data) of ({v} ∪ row(v)).
    let mut succ: Vec<Vec<usize>> = ug.succ.clone();
    let mut out = Vec::new();
    for ii in (0..n).rev() {
        let u = pos[ii];
        // recompute row(u) from successors (rows of successors are final).
        for &v in &succ[u].clone() {
            reach.set(u, v);
            reach.or_row(u, v);
        }
        for &v in &pos[ii + 1..] {
            if !reach.get(u, v) && spec.conflict(u, v) {
                out.push((u, v));
                succ[u].push(v);
                reach.set(u, v);
                reach.or_row(u, v);
            }
        }
    }
    out
}
