//! The function type stored in the graphs under test, and building a real `FnGraph` from a spec.

use std::any::TypeId;
use std::cell::Cell;

use fn_graph::{DataAccessDyn, Edge, FnGraph, FnGraphBuilder, FnId, TypeIds};

use crate::model::{Built, GraphSpec, BK, EK};

pub struct D0;
pub struct D1;
pub struct D2;
pub struct D3;
pub struct D4;
pub struct D5;
pub struct D6;
pub struct D7;

fn type_id_of(t: usize) -> TypeId {
    match t {
        0 => TypeId::of::<D0>(),
        1 => TypeId::of::<D1>(),
        2 => TypeId::of::<D2>(),
        3 => TypeId::of::<D3>(),
        4 => TypeId::of::<D4>(),
        5 => TypeId::of::<D5>(),
        6 => TypeId::of::<D6>(),
        _ => TypeId::of::<D7>(),
    }
}

thread_local! {
    /// Number of access-declaration queries made on this thread (hook-free work counter, C18).
    pub static ACCESS_QUERIES: Cell<u64> = const { Cell::new(0) };
}

#[derive(Clone, Debug, PartialEq, Eq)]
pub struct TFn {
    pub idx: usize,
    pub reads: u8,
    pub writes: u8,
    /// Incremented through the `&mut F` the `_mut` APIs hand out.
    pub runs: u32,
}

fn ids(mask: u8) -> TypeIds {
    let mut v = TypeIds::new();
    for t in 0..8 {
        if mask >> t & 1 == 1 {
            v.push(type_id_of(t));
        }
    }
    v
}

impl DataAccessDyn for TFn {
    fn borrows(&self) -> TypeIds {
        ACCESS_QUERIES.with(|c| c.set(c.get() + 1));
        ids(self.reads)
    }
    fn borrow_muts(&self) -> TypeIds {
        ACCESS_QUERIES.with(|c| c.set(c.get() + 1));
        ids(self.writes)
    }
}

/// Result of replaying the builder calls of a spec against the real builder.
pub struct BuildLog {
    /// FnId index returned by add_fn for the i-th function.
    pub ids: Vec<usize>,
    /// Per call: Ok(edge index) / Err(WouldCycle).
    pub results: Vec<Result<usize, ()>>,
}

pub fn builder_from_spec(spec: &GraphSpec) -> (FnGraphBuilder<TFn>, BuildLog) {
    let mut b = FnGraphBuilder::<TFn>::new();
    let mut fn_ids: Vec<FnId> = Vec::with_capacity(spec.n);
    for i in 0..spec.n {
        fn_ids.push(b.add_fn(TFn { idx: i, reads: spec.reads[i], writes: spec.writes[i], runs: 0 }));
    }
    let mut results = Vec::with_capacity(spec.calls.len());
    for &(a, c, k) in &spec.calls {
        let r = match k {
            EK::Logic => b.add_logic_edge(fn_ids[a as usize], fn_ids[c as usize]),
            EK::Contains => b.add_contains_edge(fn_ids[a as usize], fn_ids[c as usize]),
        };
        results.push(r.map(|e| e.index()).map_err(|_| ()));
    }
    (b, BuildLog { ids: fn_ids.iter().map(|i| i.index()).collect(), results })
}

pub fn build(spec: &GraphSpec) -> FnGraph<TFn> {
    builder_from_spec(spec).0.build()
}

pub fn bk(e: Edge) -> BK {
    match e {
        Edge::Logic => BK::Logic,
        Edge::Contains => BK::Contains,
        Edge::Data => BK::Data,
    }
}

/// Reads the built graph through the public `graph` field.
pub fn built_of(g: &FnGraph<TFn>) -> Built {
    let n = g.graph.node_count();
    let edges = g
        .graph
        .raw_edges()
        .iter()
        .map(|e| (e.source().index(), e.target().index(), bk(e.weight)))
        .collect();
    Built::new(n, edges)
}
