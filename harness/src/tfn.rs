//! The function type stored in the graphs under test, and building a real `FnGraph` from a spec.

use std::any::TypeId;
use std::cell::Cell;

use fn_graph::{DataAccessDyn, Edge, FnGraph, FnGraphBuilder, FnId, TypeIds};

use crate::model::{Built, GraphSpec, Mask, BK, EK};

/// 128 distinct marker data types.
pub struct D<const N: usize>;

/// 128 more: the "twin" of data type t. A function that declares D<t> may declare E<t> next to
/// it with the same mode (see `ids`), which never changes who conflicts with whom but lets one
/// graph carry up to 256 distinct TypeIds - more than fit into any machine-word bit mask.
pub struct E<const N: usize>;

macro_rules! type_ids_table {
    ($t:expr; $twin:expr; $($n:literal)*) => {
        match ($t, $twin) {
            $( ($n, false) => TypeId::of::<D<$n>>(), )*
            $( ($n, true) => TypeId::of::<E<$n>>(), )*
            (_, false) => TypeId::of::<D<127>>(),
            (_, true) => TypeId::of::<E<127>>(),
        }
    };
}

fn type_id_of(t: usize, twin: bool) -> TypeId {
    type_ids_table!(t; twin;
        0 1 2 3 4 5 6 7 8 9 10 11 12 13 14 15 16 17 18 19 20 21 22 23 24 25 26 27 28 29 30 31
        32 33 34 35 36 37 38 39 40 41 42 43 44 45 46 47 48 49 50 51 52 53 54 55 56 57 58 59 60 61 62 63
        64 65 66 67 68 69 70 71 72 73 74 75 76 77 78 79 80 81 82 83 84 85 86 87 88 89 90 91 92 93 94 95
        96 97 98 99 100 101 102 103 104 105 106 107 108 109 110 111 112 113 114 115 116 117 118 119 120 121 122 123 124 125 126 127)
}

thread_local! {
    /// Number of access-declaration queries made on this thread (hook-free work counter, C18).
    pub static ACCESS_QUERIES: Cell<u64> = const { Cell::new(0) };
}

/// Equality deliberately ignores `idx`: two functions with the same declarations compare equal,
/// so graphs routinely contain *equal* functions at different positions (C12: `==` on graphs
/// must still tell an edge endpoint moved between two equal functions apart).
#[derive(Clone, Debug)]
pub struct TFn {
    pub idx: usize,
    pub reads: Mask,
    pub writes: Mask,
    /// Incremented through the `&mut F` the `_mut` APIs hand out.
    pub runs: u32,
}

impl PartialEq for TFn {
    fn eq(&self, o: &TFn) -> bool {
        self.reads == o.reads && self.writes == o.writes && self.runs == o.runs
    }
}
impl Eq for TFn {}

/// The declaration list for a mask (plus twin types, see `E`). The list is a *list*, not a set: depending on `salt` (the
/// function's index) it is rotated (so it is not in any canonical order) and, one time in three,
/// repeats its first entry at the end (`fn f(a: &A, b: &B, c: &A)` declares A twice). The model
/// works on the set, which is all the properties speak about.
fn ids(mask: Mask, salt: usize) -> TypeIds {
    let mut tmp: Vec<TypeId> = Vec::new();
    let mut m = mask;
    while m != 0 {
        let t = m.trailing_zeros() as usize;
        tmp.push(type_id_of(t, false));
        if (salt + t) % 2 == 0 {
            // the twin type, same mode: the conflict relation is unchanged (whoever lists E<t>
            // also lists D<t> in the same mode)
            tmp.push(type_id_of(t, true));
        }
        m &= m - 1;
    }
    let mut v = TypeIds::new();
    if tmp.is_empty() {
        return v;
    }
    let rot = salt % tmp.len();
    tmp.rotate_left(rot);
    let first = tmp[0];
    let len = tmp.len();
    for t in tmp {
        v.push(t);
    }
    if salt % 3 == 1 && (len >= 2 || salt % 2 == 1) {
        v.push(first);
    }
    v
}

impl DataAccessDyn for TFn {
    fn borrows(&self) -> TypeIds {
        ACCESS_QUERIES.with(|c| c.set(c.get() + 1));
        ids(self.reads, self.idx)
    }
    fn borrow_muts(&self) -> TypeIds {
        ACCESS_QUERIES.with(|c| c.set(c.get() + 1));
        ids(self.writes, self.idx / 2 + 1)
    }
}

/// Result of replaying the builder calls of a spec against the real builder.
pub struct BuildLog {
    /// FnId index returned by add_fn for the i-th function.
    pub ids: Vec<usize>,
    /// Per call: Ok(edge index) / Err(WouldCycle).
    pub results: Vec<Result<usize, ()>>,
}

pub fn builder_from_spec(spec: &GraphSpec) -> (FnGraphBuilder<TFn>, BuildLog) {
    let mut b = FnGraphBuilder::<TFn>::new();
    let mut fn_ids: Vec<FnId> = Vec::with_capacity(spec.n);
    let mk = |i: usize| TFn { idx: i, reads: spec.reads[i], writes: spec.writes[i], runs: 0 };
    // Half of the specs insert their functions through a mix of add_fn and add_fns (groups of 2..4):
    // the ids returned by a group call on a builder that already holds functions are part of what
    // every later edge call and oracle relies on.
    let hf = crate::runner::hash_of(spec);
    if (hf >> 5) & 1 == 1 && spec.n <= 1024 {
        let mut rng = crate::choice::Rng::new(hf ^ 0x5eed);
        let mut i = 0;
        while i < spec.n {
            let k = rng.range(1, 4).min(spec.n - i);
            match k {
                1 => fn_ids.push(b.add_fn(mk(i))),
                2 => fn_ids.extend(b.add_fns([mk(i), mk(i + 1)])),
                3 => fn_ids.extend(b.add_fns([mk(i), mk(i + 1), mk(i + 2)])),
                _ => fn_ids.extend(b.add_fns([mk(i), mk(i + 1), mk(i + 2), mk(i + 3)])),
            }
            i += k;
        }
    } else {
        for i in 0..spec.n {
            fn_ids.push(b.add_fn(mk(i)));
        }
    }
    let mut results = Vec::with_capacity(spec.calls.len());
    // Roughly a third of the specs are replayed through the batch forms (add_*_edges) where that
    // cannot change the meaning: a batch is a run of consecutive same-kind calls of which only
    // the LAST may be one the reference model rejects (a batch stops at its first rejection).
    let h = crate::runner::hash_of(spec);
    let batching = h % 3 == 0 && spec.n <= 64 && !spec.calls.is_empty();
    if !batching {
        for &(a, c, k) in &spec.calls {
            let r = match k {
                EK::Logic => b.add_logic_edge(fn_ids[a as usize], fn_ids[c as usize]),
                EK::Contains => b.add_contains_edge(fn_ids[a as usize], fn_ids[c as usize]),
            };
            results.push(r.map(|e| e.index()).map_err(|_| ()));
        }
    } else {
        let accepted = crate::model::UserGraph::from_spec(spec).accepted;
        let mut rng = crate::choice::Rng::new(h);
        let mut i = 0;
        while i < spec.calls.len() {
            let kind = spec.calls[i].2;
            let want = rng.range(1, 4);
            let mut j = i;
            while j < spec.calls.len() && j - i < want && spec.calls[j].2 == kind {
                j += 1;
                if !accepted[j - 1] {
                    break;
                }
            }
            let pairs: Vec<(FnId, FnId)> = spec.calls[i..j].iter().map(|c| (fn_ids[c.0 as usize], fn_ids[c.1 as usize])).collect();
            macro_rules! call {
                ($arr:expr) => {
                    match kind {
                        EK::Logic => b.add_logic_edges($arr).map(|x| x.iter().map(|e| e.index()).collect::<Vec<_>>()),
                        EK::Contains => b.add_contains_edges($arr).map(|x| x.iter().map(|e| e.index()).collect::<Vec<_>>()),
                    }
                };
            }
            let r = match pairs.len() {
                1 => call!([pairs[0]]),
                2 => call!([pairs[0], pairs[1]]),
                3 => call!([pairs[0], pairs[1], pairs[2]]),
                _ => call!([pairs[0], pairs[1], pairs[2], pairs[3]]),
            };
            match r {
                Ok(ids) => results.extend(ids.into_iter().map(Ok)),
                Err(_) => {
                    for _ in i..j - 1 {
                        results.push(Ok(usize::MAX));
                    }
                    results.push(Err(()));
                }
            }
            i = j;
        }
    }
    (b, BuildLog { ids: fn_ids.iter().map(|i| i.index()).collect(), results })
}

pub fn build(spec: &GraphSpec) -> FnGraph<TFn> {
    builder_from_spec(spec).0.build()
}

pub fn bk(e: Edge) -> BK {
    match e {
        Edge::Logic => BK::Logic,
        Edge::Contains => BK::Contains,
        Edge::Data => BK::Data,
    }
}

/// Reads the built graph through the public `graph` field.
pub fn built_of(g: &FnGraph<TFn>) -> Built {
    let n = g.graph.node_count();
    let edges = g
        .graph
        .raw_edges()
        .iter()
        .map(|e| (e.source().index(), e.target().index(), bk(e.weight)))
        .collect();
    Built::new(n, edges)
}

/// Runs `f` (a build of a graph with n functions) with a generous budget on the RankCalc queue
/// pops (n^3 + 10^4), so that a build that would never terminate (e.g. on a graph that wrongly
/// contains a cycle) panics instead of hanging the worker; C11 reports that panic. C18 sets its
/// own, tight budget.
pub fn guarded<R>(n: usize, f: impl FnOnce() -> R) -> R {
    use fn_graph::verif_hooks as vh;
    let n = n as u64;
    vh::rank_calc_pops_reset();
    vh::set_rank_calc_pop_budget(Some(n * n * n + 10_000));
    struct Reset;
    impl Drop for Reset {
        fn drop(&mut self) {
            fn_graph::verif_hooks::set_rank_calc_pop_budget(None);
        }
    }
    let _r = Reset;
    f()
}
