//! Runtime-monitoring harness for azriel91/fn_graph. See /verif/DESIGN.md.
pub mod apis;
pub mod buildchecks;
pub mod choice;
pub mod director;
pub mod dispatch;
pub mod exec;
pub mod gen;
pub mod json;
pub mod model;
pub mod multirun;
pub mod oracles;
pub mod replay;
pub mod runner;
pub mod sched;
#[cfg(feature = "b")]
pub mod sharedstate;
pub mod spec;
pub mod tfn;
pub mod threads;

pub const CFG_B: bool = cfg!(feature = "b");
