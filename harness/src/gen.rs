//! Generators: exhaustive enumerators for small graphs, seeded random families beyond.

use crate::choice::Rng;
use crate::model::{GraphSpec, Mask, UserGraph, EK};
use crate::spec::{Api, Intr, Mode, RunSpec, SignalPlan, ALL_APIS};

/// All labelled DAGs on n nodes, as edge lists (pair order). 1, 1, 3, 25, 543, 29281, 3781503 …
pub struct DagEnum {
    n: usize,
    pairs: Vec<(usize, usize)>,
    /// per pair: 0 none, 1 i->j, 2 j->i
    digits: Vec<u8>,
    done: bool,
}

impl DagEnum {
    pub fn new(n: usize) -> DagEnum {
        let mut pairs = Vec::new();
        for i in 0..n {
            for j in i + 1..n {
                pairs.push((i, j));
            }
        }
        let digits = vec![0; pairs.len()];
        DagEnum { n, pairs, digits, done: false }
    }
    fn current(&self) -> Vec<(usize, usize)> {
        self.pairs
            .iter()
            .zip(&self.digits)
            .filter_map(|(&(i, j), &d)| match d {
                1 => Some((i, j)),
                2 => Some((j, i)),
                _ => None,
            })
            .collect()
    }
    fn advance(&mut self) {
        for d in self.digits.iter_mut() {
            if *d < 2 {
                *d += 1;
                return;
            }
            *d = 0;
        }
        self.done = true;
    }
}

fn acyclic(n: usize, edges: &[(usize, usize)]) -> bool {
    let mut indeg = vec![0; n];
    for &(_, b) in edges {
        indeg[b] += 1;
    }
    let mut q: Vec<usize> = (0..n).filter(|&i| indeg[i] == 0).collect();
    let mut seen = 0;
    while let Some(u) = q.pop() {
        seen += 1;
        for &(a, b) in edges {
            if a == u {
                indeg[b] -= 1;
                if indeg[b] == 0 {
                    q.push(b);
                }
            }
        }
    }
    seen == n
}

impl Iterator for DagEnum {
    type Item = Vec<(usize, usize)>;
    fn next(&mut self) -> Option<Self::Item> {
        while !self.done {
            let e = self.current();
            self.advance();
            if acyclic(self.n, &e) {
                return Some(e);
            }
        }
        None
    }
}

/// All assignments of {none, read, write} of one data type to n functions (3^n), or over two data
/// types (9^n) when `two` is set. Index based so that workers can shard.
pub fn access_assignment(n: usize, two: bool, mut idx: usize) -> (Vec<Mask>, Vec<Mask>) {
    let mut r: Vec<Mask> = vec![0; n];
    let mut w: Vec<Mask> = vec![0; n];
    for i in 0..n {
        let base = if two { 9 } else { 3 };
        let d = idx % base;
        idx /= base;
        let (d0, d1) = (d % 3, d / 3);
        match d0 {
            1 => r[i] |= 1,
            2 => w[i] |= 1,
            _ => {}
        }
        match d1 {
            1 => r[i] |= 2,
            2 => w[i] |= 2,
            _ => {}
        }
    }
    (r, w)
}

pub fn access_count(n: usize, two: bool) -> usize {
    (if two { 9usize } else { 3 }).pow(n as u32)
}

#[derive(Clone, Copy, Debug, PartialEq, Eq)]
pub enum Family {
    SparseEr,
    DenseEr,
    Chain,
    OutTree,
    InTree,
    Diamonds,
    Layered,
    Complete,
    Isolated,
    FanOut,
    FanIn,
    Empty,
    Single,
}

pub const FAMILIES: [Family; 13] = [
    Family::SparseEr,
    Family::DenseEr,
    Family::Chain,
    Family::OutTree,
    Family::InTree,
    Family::Diamonds,
    Family::Layered,
    Family::Complete,
    Family::Isolated,
    Family::FanOut,
    Family::FanIn,
    Family::Empty,
    Family::Single,
];

#[derive(Clone, Copy, Debug)]
pub struct GraphProfile {
    pub min_n: usize,
    pub max_n: usize,
    /// Number of data types to draw accesses from (1..=128); 0 = no access declarations.
    pub types: usize,
    /// Per function: max number of declared accesses.
    pub max_access: usize,
    /// Percent of accesses that are writes.
    pub write_pct: u64,
    /// Add duplicate / reversed / self edges to the call sequence.
    pub hostile_calls: bool,
    /// Cap on root-to-node paths (keeps every check but C18 away from the rank defect).
    pub path_cap: u64,
    /// Mix of Logic/Contains; false = Logic only.
    pub kinds: bool,
}

impl GraphProfile {
    pub fn sched(max_n: usize) -> GraphProfile {
        GraphProfile { min_n: 0, max_n, types: 3, max_access: 2, write_pct: 50, hostile_calls: true, path_cap: 200_000, kinds: true }
    }
}

/// Edges over a hidden topological order `perm`: (perm[i], perm[j]) with i < j.
fn family_edges(rng: &mut Rng, fam: Family, n: usize) -> Vec<(usize, usize)> {
    let mut perm: Vec<usize> = (0..n).collect();
    rng.shuffle(&mut perm);
    let mut e = Vec::new();
    match fam {
        Family::Empty | Family::Single | Family::Isolated => {}
        Family::SparseEr | Family::DenseEr => {
            let mut p = if fam == Family::SparseEr { rng.range(5, 30) } else { rng.range(40, 90) } as u64;
            let mut den = 100;
            if n > 100 {
                // keep big graphs sparse: about 2 edges per function
                p = 2;
                den = n as u64;
            }
            for i in 0..n {
                for j in i + 1..n {
                    if rng.chance(p, den) {
                        e.push((perm[i], perm[j]));
                    }
                }
            }
        }
        Family::Chain => {
            for i in 1..n {
                e.push((perm[i - 1], perm[i]));
            }
        }
        Family::OutTree => {
            for i in 1..n {
                let p = rng.below(i);
                e.push((perm[p], perm[i]));
            }
        }
        Family::InTree => {
            for i in 0..n.saturating_sub(1) {
                let c = rng.range(i + 1, n - 1);
                e.push((perm[i], perm[c]));
            }
        }
        Family::Diamonds => {
            // a -> {b, c} -> d -> {e, f} -> g ...
            let mut i = 0;
            while i + 3 < n {
                e.push((perm[i], perm[i + 1]));
                e.push((perm[i], perm[i + 2]));
                e.push((perm[i + 1], perm[i + 3]));
                e.push((perm[i + 2], perm[i + 3]));
                i += 3;
            }
            while i + 1 < n {
                e.push((perm[i], perm[i + 1]));
                i += 1;
            }
        }
        Family::Layered => {
            let w = rng.range(2, 4).min(n.max(1));
            let mut i = 0;
            while i + w < n {
                let next_w = w.min(n - (i + w));
                for a in 0..w {
                    for b in 0..next_w {
                        e.push((perm[i + a], perm[i + w + b]));
                    }
                }
                i += w;
            }
        }
        Family::Complete => {
            for i in 0..n {
                for j in i + 1..n {
                    e.push((perm[i], perm[j]));
                }
            }
        }
        Family::FanOut => {
            for i in 1..n {
                e.push((perm[0], perm[i]));
            }
        }
        Family::FanIn => {
            for i in 0..n.saturating_sub(1) {
                e.push((perm[i], perm[n - 1]));
            }
        }
    }
    rng.shuffle(&mut e);
    e
}

pub fn random_access(rng: &mut Rng, n: usize, p: &GraphProfile) -> (Vec<Mask>, Vec<Mask>) {
    let mut reads: Vec<Mask> = vec![0; n];
    let mut writes: Vec<Mask> = vec![0; n];
    if p.types == 0 {
        return (reads, writes);
    }
    let types = rng.range(1, p.types);
    for i in 0..n {
        let k = rng.below(p.max_access + 1);
        for _ in 0..k {
            let t = rng.below(types);
            if rng.chance(p.write_pct, 100) {
                writes[i] |= 1 << t;
            } else {
                reads[i] |= 1 << t;
            }
        }
    }
    (reads, writes)
}

pub fn random_graph_of(rng: &mut Rng, fam: Family, n: usize, p: &GraphProfile) -> GraphSpec {
    let n = match fam {
        Family::Empty => 0,
        Family::Single => 1,
        _ => n,
    };
    let mut tries = 0;
    loop {
        let fam_now = if tries >= 3 { Family::SparseEr } else { fam };
        let edges = family_edges(rng, fam_now, n);
        let mut calls: Vec<(u32, u32, EK)> = edges
            .iter()
            .map(|&(a, b)| (a as u32, b as u32, if p.kinds && rng.chance(1, 3) { EK::Contains } else { EK::Logic }))
            .collect();
        if p.hostile_calls && n >= 1 && n <= 16 && rng.chance(1, 3) {
            let extra = rng.range(1, 3);
            for _ in 0..extra {
                let pos = rng.below(calls.len() + 1);
                let call = match rng.below(3) {
                    0 if !calls.is_empty() => {
                        // duplicate, maybe with another kind
                        let c = calls[rng.below(calls.len())];
                        (c.0, c.1, if rng.chance(1, 2) { EK::Contains } else { EK::Logic })
                    }
                    1 if !calls.is_empty() => {
                        // reversed: the builder must reject it if it comes after the original
                        let c = calls[rng.below(calls.len())];
                        (c.1, c.0, c.2)
                    }
                    _ => {
                        let a = rng.below(n) as u32;
                        (a, a, EK::Logic)
                    }
                };
                calls.insert(pos, call);
            }
        }
        let (reads, writes) = random_access(rng, n, p);
        let gs = GraphSpec { n, calls, reads, writes };
        let ug = UserGraph::from_spec(&gs);
        if ug.path_count() <= p.path_cap {
            return gs;
        }
        tries += 1;
    }
}

pub fn random_graph(rng: &mut Rng, p: &GraphProfile) -> GraphSpec {
    let fam = *rng.pick(&FAMILIES);
    let n = rng.range(p.min_n, p.max_n);
    random_graph_of(rng, fam, n, p)
}

/// Wide graphs: more ready functions than any plausible fixed channel capacity / constant.
pub fn wide_graph(rng: &mut Rng, n: usize) -> GraphSpec {
    let fam = *rng.pick(&[Family::Isolated, Family::FanOut, Family::FanIn]);
    let mut p = GraphProfile::sched(n);
    p.hostile_calls = false;
    p.types = 2;
    p.max_access = 1;
    p.write_pct = 10;
    if rng.chance(1, 3) {
        // no access declarations at all: no data edges, everything that can be ready is ready at once
        p.types = 0;
    }
    random_graph_of(rng, fam, n, &p)
}

#[derive(Clone, Debug)]
pub struct RunProfile {
    pub apis: Vec<Api>,
    pub fail_pct: u64,
    pub intr_pct: u64,
    pub limit_pct: u64,
    pub reverse_pct: u64,
    pub batch_pct: u64,
    pub spurious_pct: u64,
    pub drop_pct: u64,
    /// Percent of cases where all gates are Ready / SelfWake (no director control needed).
    pub ready_pct: u64,
}

impl RunProfile {
    pub fn new(apis: Vec<Api>) -> RunProfile {
        RunProfile { apis, fail_pct: 0, intr_pct: 0, limit_pct: 30, reverse_pct: 40, batch_pct: 40, spurious_pct: 10, drop_pct: 0, ready_pct: 15 }
    }
}

pub fn apis_where(cfg_b: bool, f: impl Fn(Api) -> bool) -> Vec<Api> {
    ALL_APIS.iter().copied().filter(|a| (cfg_b || !a.needs_b()) && f(*a)).collect()
}

pub fn random_modes(rng: &mut Rng, n: usize, ready_pct: u64) -> Vec<Mode> {
    if rng.chance(ready_pct, 100) {
        // whole run inside few polls
        let m = if rng.chance(1, 2) { Mode::Ready } else { Mode::SelfWake(rng.range(1, 3) as u8) };
        return vec![m; n];
    }
    let style = rng.below(3);
    (0..n)
        .map(|_| match style {
            0 => Mode::Held,
            1 => {
                if rng.chance(3, 4) {
                    Mode::Held
                } else {
                    Mode::Ready
                }
            }
            _ => match rng.below(4) {
                0 => Mode::Ready,
                1 => Mode::SelfWake(rng.range(1, 2) as u8),
                _ => Mode::Held,
            },
        })
        .collect()
}

pub fn random_run(rng: &mut Rng, n: usize, p: &RunProfile, cfg_b: bool) -> RunSpec {
    let api = *rng.pick(&p.apis);
    let mut rs = RunSpec::plain(api, n, Mode::Held);
    rs.reverse = rng.chance(p.reverse_pct, 100);
    if rng.chance(p.limit_pct, 100) {
        rs.limit = Some(*rng.pick(&[0, 1, 1, 2, 2, 3, n.saturating_sub(1), n, n + 5, 0, 1, 1, 2, 2, 3, n.saturating_sub(1), n, n + 5, usize::MAX, usize::MAX / 2, isize::MAX as usize, 1 << 40]));
    }
    if cfg_b && rng.chance(p.intr_pct, 100) {
        rs.intr = match rng.below(8) {
            0 => Intr::Ignore,
            1 | 2 | 3 => Intr::FinishCurrent,
            _ => Intr::PollNextN(rng.below(4) as u64),
        };
        rs.include = rng.chance(2, 3);
        rs.signal = match rng.below(10) {
            0 => SignalPlan::Never,
            1 | 2 => SignalPlan::BeforeCall,
            3 | 4 if !api.is_stream() && n > 0 => {
                if rng.chance(1, 2) {
                    SignalPlan::AtStart(rng.below(n) as u32)
                } else {
                    SignalPlan::AtEnd(rng.below(n) as u32)
                }
            }
            _ => SignalPlan::Tape,
        };
    }
    if n > 0 && rng.chance(p.fail_pct, 100) {
        let k = match rng.below(6) {
            0 => n,
            1 | 2 => 1,
            _ => rng.range(1, n.min(4)),
        };
        let mut ids: Vec<u32> = (0..n as u32).collect();
        rng.shuffle(&mut ids);
        rs.fail = ids[..k].to_vec();
    }
    rs.modes = random_modes(rng, n, p.ready_pct);
    rs.batch = rng.chance(p.batch_pct, 100);
    rs.spurious = if rng.chance(p.spurious_pct, 100) { rng.range(1, 2) as u8 } else { 0 };
    rs.allow_drop = rng.chance(p.drop_pct, 100);
    rs.normalise(cfg_b)
}
