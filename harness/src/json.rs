//! Minimal JSON writer (evidence parts, replay files).

use std::fmt;

#[derive(Clone, Debug)]
pub enum J {
    Null,
    Bool(bool),
    Int(i64),
    Num(f64),
    Str(String),
    Arr(Vec<J>),
    Obj(Vec<(String, J)>),
}

impl J {
    pub fn s(x: impl Into<String>) -> J {
        J::Str(x.into())
    }
    pub fn obj(kv: Vec<(&str, J)>) -> J {
        J::Obj(kv.into_iter().map(|(k, v)| (k.to_string(), v)).collect())
    }
    pub fn u(x: u64) -> J {
        J::Int(x as i64)
    }
}

fn esc(s: &str, f: &mut fmt::Formatter<'_>) -> fmt::Result {
    f.write_str("\"")?;
    for c in s.chars() {
        match c {
            '"' => f.write_str("\\\"")?,
            '\\' => f.write_str("\\\\")?,
            '\n' => f.write_str("\\n")?,
            '\r' => f.write_str("\\r")?,
            '\t' => f.write_str("\\t")?,
            c if (c as u32) < 0x20 => write!(f, "\\u{:04x}", c as u32)?,
            c => write!(f, "{c}")?,
        }
    }
    f.write_str("\"")
}

impl fmt::Display for J {
    fn fmt(&self, f: &mut fmt::Formatter<'_>) -> fmt::Result {
        match self {
            J::Null => f.write_str("null"),
            J::Bool(b) => write!(f, "{b}"),
            J::Int(i) => write!(f, "{i}"),
            J::Num(x) => {
                if x.is_finite() {
                    write!(f, "{x}")
                } else {
                    f.write_str("null")
                }
            }
            J::Str(s) => esc(s, f),
            J::Arr(a) => {
                f.write_str("[")?;
                for (i, x) in a.iter().enumerate() {
                    if i > 0 {
                        f.write_str(",")?;
                    }
                    write!(f, "{x}")?;
                }
                f.write_str("]")
            }
            J::Obj(o) => {
                f.write_str("{")?;
                for (i, (k, v)) in o.iter().enumerate() {
                    if i > 0 {
                        f.write_str(",")?;
                    }
                    esc(k, f)?;
                    write!(f, ":{v}")?;
                }
                f.write_str("}")
            }
        }
    }
}
