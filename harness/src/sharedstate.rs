//! C08, shared interruptibility state: several calls made one after the other with ONE
//! `InterruptibilityState` handed to each through `reborrow()` (that is what the lifetimes of
//! `StreamOpts<'rx, 'intx>` are for). The signal is sent before the first call; from then on it
//! "has been sent" for every later call as well, whether it still sits in the channel, has been
//! taken out of it by an earlier call (and is remembered in the state), or the sender is gone.
//! Oracle: every call obeys the "already pending when the call begins" bound of the property -
//! FinishCurrent starts nothing, PollNextN(n) at most n - and returns.
//!
//! User closures complete at once and only count, so no controlled executor is needed: the call
//! is polled with a flag waker until it returns.

use std::cell::RefCell;
use std::future::Future;
use std::pin::Pin;
use std::sync::atomic::{AtomicBool, Ordering};
use std::sync::Arc;
use std::task::{Context, Poll, Wake, Waker};

use fn_graph::{FnGraph, StreamOpts};
use interruptible::{InterruptSignal, InterruptibilityState};

use crate::choice::Rng;
use crate::model::GraphSpec;
use crate::oracles::Violation;
use crate::tfn::{self, TFn};

struct Flag(AtomicBool);
impl Wake for Flag {
    fn wake(self: Arc<Self>) {
        self.0.store(true, Ordering::SeqCst);
    }
}

/// Polls to completion; `None` if the future is pending without a wake-up (some other
/// property's business) or does not finish within a generous number of polls.
fn drive<T>(mut fut: Pin<Box<dyn Future<Output = T> + '_>>) -> Option<T> {
    let flag = Arc::new(Flag(AtomicBool::new(true)));
    let waker = Waker::from(flag.clone());
    let mut cx = Context::from_waker(&waker);
    for _ in 0..100_000 {
        if !flag.0.swap(false, Ordering::SeqCst) {
            return None;
        }
        if let Poll::Ready(v) = fut.as_mut().poll(&mut cx) {
            return Some(v);
        }
    }
    None
}

#[derive(Clone, Copy, Debug)]
enum Call {
    Fold,
    FoldMut,
    TryFold,
    ForEach(usize),
    ForEachMut(usize),
    TryForEach(usize),
    ControlMut(usize),
}

fn one_call(g: &mut FnGraph<TFn>, call: Call, opts: StreamOpts<'_, '_>, started: &RefCell<Vec<usize>>) -> Option<()> {
    match call {
        Call::Fold => drive(Box::pin(async {
            g.fold_async_with((), opts, |(), f| {
                started.borrow_mut().push(f.idx);
                Box::pin(async {})
            })
            .await;
        })),
        Call::FoldMut => drive(Box::pin(async {
            g.fold_async_mut_with((), opts, |(), mut f| {
                f.runs += 1;
                started.borrow_mut().push(f.idx);
                Box::pin(async {})
            })
            .await;
        })),
        Call::TryFold => drive(Box::pin(async {
            let _ = g
                .try_fold_async_with((), opts, |(), f| {
                    started.borrow_mut().push(f.idx);
                    Box::pin(async { Result::<(), u32>::Ok(()) })
                })
                .await;
        })),
        Call::ForEach(l) => drive(Box::pin(async {
            g.for_each_concurrent_with(l, opts, |f| {
                started.borrow_mut().push(f.idx);
                async {}
            })
            .await;
        })),
        Call::ForEachMut(l) => drive(Box::pin(async {
            g.for_each_concurrent_mut_with(l, opts, |f| {
                f.runs += 1;
                started.borrow_mut().push(f.idx);
                async {}
            })
            .await;
        })),
        Call::TryForEach(l) => drive(Box::pin(async {
            let _ = g
                .try_for_each_concurrent_with(l, opts, |f| {
                    started.borrow_mut().push(f.idx);
                    async { Result::<(), u32>::Ok(()) }
                })
                .await;
        })),
        Call::ControlMut(l) => drive(Box::pin(async {
            let _ = g
                .try_for_each_concurrent_control_mut_with(l, opts, |f| {
                    f.runs += 1;
                    started.borrow_mut().push(f.idx);
                    async { std::ops::ControlFlow::<u32, ()>::Continue(()) }
                })
                .await;
        })),
    }
}

/// Returns (violations, number of calls made with the shared state).
pub fn shared_state_case(gs: &GraphSpec, seed: u64) -> (Vec<Violation>, u64) {
    let mut out = Vec::new();
    let mut rng = Rng::new(seed);
    let Some(mut g) = crate::threads::try_build(gs) else { return (out, 0) };
    let _ = tfn::built_of(&g);
    let (tx, rx) = tokio::sync::mpsc::channel::<InterruptSignal>(16);
    let poll_n = if rng.chance(1, 2) { None } else { Some(rng.below(4) as u64) };
    let mut state = match poll_n {
        None => InterruptibilityState::new_finish_current(rx.into()),
        Some(k) => InterruptibilityState::new_poll_next_n(rx.into(), k),
    };
    // the signal is sent before the first call
    let _ = tx.try_send(InterruptSignal);
    let mut tx = Some(tx);
    let calls = rng.range(2, 3);
    let mut made = 0u64;
    for c in 0..calls {
        let l = *rng.pick(&[0usize, 1, 2, 0]);
        let call = *rng.pick(&[Call::Fold, Call::FoldMut, Call::TryFold, Call::ForEach(l), Call::ForEachMut(l), Call::TryForEach(l), Call::ControlMut(l)]);
        let rev = rng.chance(1, 3);
        let include = rng.chance(1, 2);
        // setter order varies as well
        let mut o = StreamOpts::new();
        if rng.chance(1, 2) {
            if rev {
                o = o.rev();
            }
            o = o.interruptibility_state(state.reborrow()).interrupted_next_item_include(include);
        } else {
            o = o.interrupted_next_item_include(include).interruptibility_state(state.reborrow());
            if rev {
                o = o.rev();
            }
        }
        let started = RefCell::new(Vec::new());
        let done = one_call(&mut g, call, o, &started);
        made += 1;
        let k = started.borrow().len();
        let bound = match poll_n {
            None | Some(0) => 0,
            Some(n) => n as usize,
        };
        let what = format!(
            "call #{c} ({call:?}, reverse={rev}, include={include}) sharing one InterruptibilityState ({}) through reborrow(); the signal was sent before call #0{}",
            match poll_n {
                None => "FinishCurrent".to_string(),
                Some(n) => format!("PollNextN({n})"),
            },
            if tx.is_none() { " and the sender was dropped after call #0" } else { "" }
        );
        if done.is_none() {
            // pending without a wake-up: a hang is C04's finding; here it only means "not decided"
            break;
        }
        if k > bound {
            out.push(Violation { prop: "C08", kind: "shared-state-bound-exceeded", detail: format!("{what}: started {k} functions {:?}, bound {bound} | g={}", started.borrow(), gs.encode()) });
            break;
        }
        if c == 0 && rng.chance(1, 2) {
            tx = None;
        }
    }
    (out, made)
}
