//! C08, shared interruptibility state: several calls made one after the other with ONE
//! `InterruptibilityState` handed to each through `reborrow()` (that is what the lifetimes of
//! `StreamOpts<'rx, 'intx>` are for). The signal is sent before the first call (or, in a quarter of
//! the cases, before the second, after a clean first call); from then on it
//! "has been sent" for every later call as well, whether it still sits in the channel, has been
//! taken out of it by an earlier call (and is remembered in the state), or the sender is gone.
//! Oracle: every call obeys the "already pending when the call begins" bound of the property -
//! FinishCurrent starts nothing, PollNextN(n) at most n (C08) - and returns (C04: a call that is
//! pending without a wake-up although every user closure completes at once never will).
//!
//! User closures complete at once and only count, so no controlled executor is needed: the call
//! is polled with a flag waker until it returns.

use std::cell::RefCell;
use std::future::Future;
use std::pin::Pin;
use std::sync::atomic::{AtomicBool, Ordering};
use std::sync::Arc;
use std::task::{Context, Poll, Wake, Waker};

use fn_graph::{FnGraph, StreamOpts};
use interruptible::{InterruptSignal, InterruptibilityState};

use crate::choice::Rng;
use crate::model::GraphSpec;
use crate::oracles::Violation;
use crate::tfn::{self, TFn};

struct Flag(AtomicBool);
impl Wake for Flag {
    fn wake(self: Arc<Self>) {
        self.0.store(true, Ordering::SeqCst);
    }
}

/// Why a call did not return.
#[derive(Clone, Copy, Debug, PartialEq, Eq)]
pub enum Stuck {
    /// Pending, and nobody has been asked to wake the task: the call can never make progress (the
    /// user closures here complete at once, so nothing outside the library is outstanding).
    NoWakeUp,
    /// Still waking itself after a generous number of polls: not decided.
    PollBudget,
}

/// Polls to completion, or says why the call did not return.
fn drive<T>(mut fut: Pin<Box<dyn Future<Output = T> + '_>>) -> Result<T, Stuck> {
    let flag = Arc::new(Flag(AtomicBool::new(true)));
    let waker = Waker::from(flag.clone());
    let mut cx = Context::from_waker(&waker);
    for _ in 0..100_000 {
        if !flag.0.swap(false, Ordering::SeqCst) {
            return Err(Stuck::NoWakeUp);
        }
        if let Poll::Ready(v) = fut.as_mut().poll(&mut cx) {
            return Ok(v);
        }
    }
    Err(Stuck::PollBudget)
}

#[derive(Clone, Copy, Debug)]
enum Call {
    Fold,
    FoldMut,
    TryFold,
    ForEach(usize),
    ForEachMut(usize),
    TryForEach(usize),
    ControlMut(usize),
}

fn one_call(g: &mut FnGraph<TFn>, call: Call, opts: StreamOpts<'_, '_>, started: &RefCell<Vec<usize>>) -> Result<(), Stuck> {
    match call {
        Call::Fold => drive(Box::pin(async {
            g.fold_async_with((), opts, |(), f| {
                started.borrow_mut().push(f.idx);
                Box::pin(async {})
            })
            .await;
        })),
        Call::FoldMut => drive(Box::pin(async {
            g.fold_async_mut_with((), opts, |(), mut f| {
                f.runs += 1;
                started.borrow_mut().push(f.idx);
                Box::pin(async {})
            })
            .await;
        })),
        Call::TryFold => drive(Box::pin(async {
            let _ = g
                .try_fold_async_with((), opts, |(), f| {
                    started.borrow_mut().push(f.idx);
                    Box::pin(async { Result::<(), u32>::Ok(()) })
                })
                .await;
        })),
        Call::ForEach(l) => drive(Box::pin(async {
            g.for_each_concurrent_with(l, opts, |f| {
                started.borrow_mut().push(f.idx);
                async {}
            })
            .await;
        })),
        Call::ForEachMut(l) => drive(Box::pin(async {
            g.for_each_concurrent_mut_with(l, opts, |f| {
                f.runs += 1;
                started.borrow_mut().push(f.idx);
                async {}
            })
            .await;
        })),
        Call::TryForEach(l) => drive(Box::pin(async {
            let _ = g
                .try_for_each_concurrent_with(l, opts, |f| {
                    started.borrow_mut().push(f.idx);
                    async { Result::<(), u32>::Ok(()) }
                })
                .await;
        })),
        Call::ControlMut(l) => drive(Box::pin(async {
            let _ = g
                .try_for_each_concurrent_control_mut_with(l, opts, |f| {
                    f.runs += 1;
                    started.borrow_mut().push(f.idx);
                    async { std::ops::ControlFlow::<u32, ()>::Continue(()) }
                })
                .await;
        })),
    }
}

/// Returns (violations, number of calls made with the shared state).
pub fn shared_state_case(gs: &GraphSpec, seed: u64) -> (Vec<Violation>, u64) {
    let mut out = Vec::new();
    let mut rng = Rng::new(seed);
    let Some(mut g) = crate::threads::try_build(gs) else { return (out, 0) };
    let _ = tfn::built_of(&g);
    let (tx, rx) = tokio::sync::mpsc::channel::<InterruptSignal>(16);
    let poll_n = if rng.chance(1, 2) { None } else { Some(rng.below(4) as u64) };
    let mut state = match poll_n {
        None => InterruptibilityState::new_finish_current(rx.into()),
        Some(k) => InterruptibilityState::new_poll_next_n(rx.into(), k),
    };
    // the signal is sent before the first call, or (one case in four) only before the second:
    // the first call then runs clean on the state the later ones share
    let signal_at = if rng.chance(1, 4) { 1 } else { 0 };
    let mut tx = Some(tx);
    let calls = rng.range(2, 3);
    let mut made = 0u64;
    for c in 0..calls {
        if c == signal_at {
            if let Some(tx) = tx.as_ref() {
                let _ = tx.try_send(InterruptSignal);
            }
        }
        let l = *rng.pick(&[0usize, 1, 2, 0]);
        let call = *rng.pick(&[Call::Fold, Call::FoldMut, Call::TryFold, Call::ForEach(l), Call::ForEachMut(l), Call::TryForEach(l), Call::ControlMut(l)]);
        let rev = rng.chance(1, 3);
        let include = rng.chance(1, 2);
        // setter order varies as well
        let mut o = StreamOpts::new();
        if rng.chance(1, 2) {
            if rev {
                o = o.rev();
            }
            o = o.interruptibility_state(state.reborrow()).interrupted_next_item_include(include);
        } else {
            o = o.interrupted_next_item_include(include).interruptibility_state(state.reborrow());
            if rev {
                o = o.rev();
            }
        }
        let started = RefCell::new(Vec::new());
        let done = one_call(&mut g, call, o, &started);
        made += 1;
        let k = started.borrow().len();
        let bound = match poll_n {
            None | Some(0) => 0,
            Some(n) => n as usize,
        };
        let what = format!(
            "call #{c} ({call:?}, reverse={rev}, include={include}) sharing one InterruptibilityState ({}) through reborrow(); the signal was sent before call #{signal_at}{}",
            match poll_n {
                None => "FinishCurrent".to_string(),
                Some(n) => format!("PollNextN({n})"),
            },
            if tx.is_none() { " and the sender was dropped after that call" } else { "" }
        );
        match done {
            Ok(()) => {}
            Err(Stuck::NoWakeUp) => {
                // every user closure completes at once: the call is pending with nothing outstanding
                out.push(Violation { prop: "C04", kind: "shared-state-call-never-returns", detail: format!("{what}: the call is pending and no wake-up has been signalled (started so far {:?}) | g={}", started.borrow(), gs.encode()) });
                break;
            }
            Err(Stuck::PollBudget) => break,
        }
        if c < signal_at {
            if k != gs.n {
                out.push(Violation { prop: "C04", kind: "shared-state-clean-call-incomplete", detail: format!("{what}: no signal had been sent yet, but the call returned after starting {k} of {} functions | g={}", gs.n, gs.encode()) });
                break;
            }
            continue;
        }
        if k > bound {
            out.push(Violation { prop: "C08", kind: "shared-state-bound-exceeded", detail: format!("{what}: started {k} functions {:?}, bound {bound} | g={}", started.borrow(), gs.encode()) });
            break;
        }
        if c == signal_at && rng.chance(1, 2) {
            tx = None;
        }
    }
    (out, made)
}
