//! Property id -> check.

use crate::runner::{Opts, Stats};

pub const SCHED_RULE: &str = "case = (graph spec, run spec, choice tape) executed under the controlled executor; \
phase 1 enumerates every labelled DAG up to exhaustive.max_n nodes x access assignments x run-spec templates x EVERY choice tape (all completion / poll / drop orders); \
phase 2 draws seeded random graphs (13 families incl. empty, single, wide), options and tapes. \
distinct = distinct hash of (graph, api, order, sequence of hand-out / completion / drop / signal events); non-trivial = graph has >= 2 functions and >= 2 functions were handed out";

/// Returns (stats, missed coverage floors, rule text); None when the property has nothing to run
/// in this build configuration.
pub fn run(opts: &Opts) -> Option<(Stats, Vec<String>, String)> {
    let cfg_b = crate::CFG_B;
    match opts.prop.as_str() {
        "C01" | "C02" | "C03" | "C04" | "C05" | "C06" | "C07" | "C08" | "C09" | "C10" => {
            let st = crate::sched::run(opts, cfg_b)?;
            let floors = crate::sched::floors(&opts.prop, &st, cfg_b, opts.tier);
            Some((st, floors, SCHED_RULE.to_string()))
        }
        "C11" | "C12" | "C13" | "C14" | "C16" | "C17" | "C18" => crate::buildchecks::run(opts),
        "C15" => Some(crate::multirun::run_c15(opts, cfg_b)),
        "C20" => Some(crate::multirun::run_c20(opts, cfg_b)),
        _ => None,
    }
}
