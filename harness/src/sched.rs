//! Checks for the run-time scheduler properties C01–C10 (single run on a graph).

use std::time::Instant;

use crate::choice::{mix, Rng, Tape};
use crate::director::{Ev, Term};
use crate::exec::Trace;
use crate::gen::{self, apis_where, DagEnum, Family, GraphProfile, RunProfile};
use crate::model::{GraphSpec, EK};
use crate::oracles::{self, Ctx, Violation};
use crate::runner::{all_tapes, exec_case, par_for, sample_json, set_what, CheckFn, Opts, Slot, Stats, Subject, Tier, MAX_SAMPLES};
use crate::spec::{Api, Intr, Mode, RunSpec, SignalPlan};

fn check_c01(c: &Ctx, t: &Trace, o: &mut Vec<Violation>) {
    oracles::o_conflict(c, t, o)
}
fn check_c02(c: &Ctx, t: &Trace, o: &mut Vec<Violation>) {
    oracles::o_dep(c, t, o)
}
fn check_c03(c: &Ctx, t: &Trace, o: &mut Vec<Violation>) {
    oracles::o_once(c, t, o)
}
fn check_c04(c: &Ctx, t: &Trace, o: &mut Vec<Violation>) {
    oracles::o_term(c, t, o)
}
fn check_c05(c: &Ctx, t: &Trace, o: &mut Vec<Violation>) {
    oracles::o_stream(c, t, o)
}
fn check_c06(c: &Ctx, t: &Trace, o: &mut Vec<Violation>) {
    oracles::o_eager(c, t, o);
    if o.is_empty() {
        oracles::o_extra_edges(c.gs, c.ug, c.built, o);
    }
}
fn check_c07(c: &Ctx, t: &Trace, o: &mut Vec<Violation>) {
    oracles::o_fail(c, t, o)
}
fn check_c08(c: &Ctx, t: &Trace, o: &mut Vec<Violation>) {
    oracles::o_intr(c, t, o)
}
fn check_c09(c: &Ctx, t: &Trace, o: &mut Vec<Violation>) {
    oracles::o_outcome(c, t, o)
}
fn check_c10(c: &Ctx, t: &Trace, o: &mut Vec<Violation>) {
    oracles::o_limit(c, t, o)
}

pub struct Plan {
    pub prop: &'static str,
    pub check: CheckFn,
    pub gprof: GraphProfile,
    pub rprof: RunProfile,
    /// Families to favour (half of the cases), if any.
    pub bias: Vec<Family>,
    /// Every k-th random case is a wide graph (0 = never).
    pub wide_every: u64,
    pub wide_sizes: Vec<usize>,
    pub random_cases: u64,
    pub exh_max_n: usize,
    /// Enumerate every {none, R, W}^n assignment (else two fixed ones).
    pub exh_access: bool,
    pub tape_cap: u64,
}

pub fn plan(prop: &str, tier: Tier, cfg_b: bool) -> Option<Plan> {
    let q = tier == Tier::Quick;
    let concurrent = |a: Api| a.is_stream() || a.is_concurrent_call();
    let mut g = GraphProfile::sched(if q { 8 } else { 12 });
    let (check, apis, bias): (CheckFn, Vec<Api>, Vec<Family>) = match prop {
        "C01" => (check_c01, apis_where(cfg_b, concurrent), vec![Family::Isolated, Family::SparseEr, Family::FanOut]),
        "C02" => (check_c02, apis_where(cfg_b, |_| true), vec![Family::Chain, Family::Diamonds, Family::DenseEr, Family::InTree]),
        "C03" => (check_c03, apis_where(cfg_b, |_| true), vec![]),
        "C04" => (check_c04, apis_where(cfg_b, |a| !a.is_stream()), vec![Family::Empty, Family::Single]),
        "C05" => (check_c05, apis_where(cfg_b, |a| a.is_stream()), vec![Family::FanIn, Family::Diamonds, Family::Layered]),
        "C06" => (check_c06, apis_where(cfg_b, concurrent), vec![Family::FanOut, Family::Isolated, Family::SparseEr]),
        "C07" => (check_c07, apis_where(cfg_b, |a| a.is_try()), vec![]),
        "C08" => {
            if !cfg_b {
                return None;
            }
            (check_c08, apis_where(cfg_b, |a| a.interruptible()), vec![])
        }
        "C09" => (check_c09, apis_where(cfg_b, |a| !a.is_stream()), vec![]),
        "C10" => (check_c10, apis_where(cfg_b, |a| !a.is_stream()), vec![Family::Isolated, Family::FanOut, Family::SparseEr]),
        _ => return None,
    };
    let mut r = RunProfile::new(apis);
    let mut wide_every = 0;
    let mut exh_access = false;
    let base: u64 = if q { 400_000 } else { 4_000_000 };
    let mut random_cases = base;
    match prop {
        "C01" => {
            g.types = 3;
            g.max_access = 2;
            g.write_pct = 60;
            r.fail_pct = 25;
            r.intr_pct = 25;
            exh_access = true;
            wide_every = if q { 8000 } else { 40_000 };
        }
        "C02" => {
            r.fail_pct = 20;
            r.intr_pct = 20;
            r.reverse_pct = 50;
            // fan-in / fan-out wider than any plausible narrow counter type (u8: 256)
            wide_every = if q { 500 } else { 2_500 };
        }
        "C03" => {
            r.fail_pct = 8;
            r.intr_pct = 10;
            wide_every = if q { 4000 } else { 20_000 };
        }
        "C04" => {
            g.min_n = 0;
            r.fail_pct = 30;
            r.intr_pct = 40;
            r.ready_pct = 30;
            // cancellation: the director may drop the call midway (must not panic)
            r.drop_pct = 8;
            wide_every = if q { 8000 } else { 40_000 };
        }
        "C05" => {
            r.batch_pct = 60;
            r.spurious_pct = 20;
            r.drop_pct = 15;
            r.intr_pct = 20;
            wide_every = if q { 8000 } else { 40_000 };
        }
        "C06" => {
            g.types = 3;
            g.max_access = 3;
            g.write_pct = 25;
            r.limit_pct = 10;
            r.batch_pct = 10;
            // only strategies that must not change the run (turned into IgnoreInterruptions below)
            r.intr_pct = 12;
            exh_access = true;
            wide_every = if q { 3000 } else { 15_000 };
        }
        "C07" => {
            r.fail_pct = 92;
            r.intr_pct = 10;
            wide_every = if q { 8000 } else { 40_000 };
        }
        "C08" => {
            r.intr_pct = 100;
            r.fail_pct = 10;
            r.limit_pct = 45;
        }
        "C09" => {
            r.fail_pct = 30;
            r.intr_pct = 45;
            wide_every = if q { 8000 } else { 40_000 };
        }
        "C10" => {
            r.limit_pct = 100;
            r.fail_pct = 10;
            r.intr_pct = 10;
            wide_every = if q { 4000 } else { 20_000 };
        }
        _ => {}
    }
    if prop == "C05" {
        random_cases = base * 2;
    }
    Some(Plan {
        prop: match prop {
            "C01" => "C01",
            "C02" => "C02",
            "C03" => "C03",
            "C04" => "C04",
            "C05" => "C05",
            "C06" => "C06",
            "C07" => "C07",
            "C08" => "C08",
            "C09" => "C09",
            _ => "C10",
        },
        check,
        gprof: g,
        rprof: r,
        bias,
        wide_every,
        wide_sizes: match (prop, q) {
            ("C02", true) => vec![300, 300, 520, 129],
            ("C02", false) => vec![300, 300, 520, 129, 1100],
            (_, true) => vec![65, 129, 300],
            (_, false) => vec![65, 129, 300, 1100, 2100],
        },
        random_cases,
        exh_max_n: if q { 3 } else { 4 },
        exh_access,
        tape_cap: if q { 3_000 } else { 30_000 },
    })
}

pub const HUGE_RUNS_PER_GRAPH: usize = 8;

/// Run spec number `rep` for a huge graph: deterministic and cheap (every user future completes at
/// once); the entry point, the limit and the failure pattern cycle with `rep`, so that a handful
/// of runs on one graph covers the combinations: small limits pile the ready functions up behind
/// the scheduler; failures: none / every function (more errors in one call than any fixed-size
/// buffer) / the first function started.
fn huge_run_spec(prop: &str, plan: &Plan, cfg_b: bool, rng: &mut Rng, gs: &GraphSpec, rep: usize) -> RunSpec {
    let n = gs.n;
    let mut rp = plan.rprof.clone();
    if prop == "C07" {
        rp.apis.retain(|a| a.is_try() && a.is_concurrent_call());
        if rp.apis.is_empty() {
            rp = plan.rprof.clone();
        }
    }
    let api = rp.apis[rep % rp.apis.len()];
    rp.apis = vec![api];
    let mut rs = gen::random_run(rng, n, &rp, cfg_b);
    rs.modes = vec![Mode::Ready; n];
    rs.batch = true;
    rs.spurious = 0;
    rs.greedy = rs.api.is_stream() && rng.chance(2, 3);
    if rs.api.is_stream() {
        rs.modes = vec![Mode::Held; n];
    }
    if rs.api.is_concurrent_call() {
        rs.limit = [Some(1), None, Some(8)][(rep / 2) % 3];
    }
    if rs.api.is_try() {
        // C07 is about the errors (every function fails most of the time), C09 about the outcome
        // after an early end (the first function fails most of the time)
        let pickf = match prop {
            "C07" => [1, 2, 1, 0][rep % 4],
            "C09" => [2, 1, 2, 0][rep % 4],
            _ => [0, 1, 2, 0][rep % 4],
        };
        match pickf {
            0 => rs.fail.clear(),
            1 => {
                // as many failures in one call as possible: run in the direction in which the
                // star's many functions are not behind a single one
                let out_star = !gs.calls.is_empty() && gs.calls.iter().all(|c| c.0 == gs.calls[0].0);
                let in_star = !gs.calls.is_empty() && gs.calls.iter().all(|c| c.1 == gs.calls[0].1);
                if rs.api.has_opts() {
                    if out_star {
                        rs.reverse = true;
                    } else if in_star {
                        rs.reverse = false;
                    }
                }
                let hub: Option<u32> = if out_star && !rs.reverse {
                    Some(gs.calls[0].0)
                } else if in_star && rs.reverse {
                    Some(gs.calls[0].1)
                } else {
                    None
                };
                rs.fail = (0..n as u32).filter(|f| Some(*f) != hub).collect();
            }
            _ => {
                let preds = sub_preds_roots(gs, rs.reverse);
                rs.fail = preds.into_iter().take(1).collect();
            }
        }
    }
    rs.normalise(cfg_b)
}

/// Functions of the user graph without predecessors (forward) / successors (reverse): a superset
/// of the functions a run can start with.
fn sub_preds_roots(gs: &GraphSpec, reverse: bool) -> Vec<u32> {
    let mut has = vec![false; gs.n];
    for &(a, b, _) in &gs.calls {
        if a != b {
            has[if reverse { a } else { b } as usize] = true;
        }
    }
    (0..gs.n as u32).filter(|&i| !has[i as usize]).collect()
}

/// Run-spec templates enumerated exhaustively for a property on a graph with n functions.
pub fn exh_runs(prop: &str, n: usize, cfg_b: bool, tier: Tier) -> Vec<RunSpec> {
    let mut out = Vec::new();
    let mk = |api: Api| RunSpec::plain(api, n, Mode::Held);
    let both_orders = |rs: RunSpec, out: &mut Vec<RunSpec>| {
        if rs.api.has_opts() {
            let mut r = rs.clone();
            r.reverse = true;
            out.push(r);
        }
        out.push(rs);
    };
    let subsets = |n: usize| -> Vec<Vec<u32>> {
        (1u32..(1 << n)).map(|m| (0..n as u32).filter(|i| m >> i & 1 == 1).collect()).collect()
    };
    match prop {
        "C01" | "C06" => {
            for api in [Api::ForEachWith, Api::StreamWith, Api::ForEach, Api::Stream, Api::ForEachMut, Api::TryForEachWith, Api::ControlMutWith] {
                both_orders(mk(api), &mut out);
            }
            if cfg_b {
                both_orders(mk(Api::StreamWithIntr), &mut out);
            }
            if prop == "C01" {
                let mut r = mk(Api::ForEachWith);
                r.limit = Some(2);
                both_orders(r, &mut out);
            }
        }
        "C02" | "C03" | "C10" => {
            let apis: Vec<Api> = if prop == "C10" {
                vec![Api::ForEachWith, Api::TryForEachWith, Api::ForEachMut, Api::ControlMutWith, Api::FoldAsyncWith, Api::TryFoldAsyncMutWith]
            } else {
                vec![
                    Api::FoldAsyncWith,
                    Api::FoldAsyncMut,
                    Api::TryFoldAsyncWith,
                    Api::TryFoldAsyncMutWith,
                    Api::ForEachWith,
                    Api::ForEachMutWith,
                    Api::TryForEachWith,
                    Api::TryForEachMut,
                    Api::ControlWith,
                    Api::ControlMutWith,
                    Api::StreamWith,
                    Api::Stream,
                ]
            };
            for api in apis {
                if api.is_concurrent_call() {
                    for lim in [None, Some(1), Some(2)] {
                        if prop == "C10" && lim.is_none() {
                            continue;
                        }
                        let mut r = mk(api);
                        r.limit = lim;
                        both_orders(r, &mut out);
                    }
                } else {
                    both_orders(mk(api), &mut out);
                }
            }
        }
        "C04" | "C09" => {
            for api in crate::spec::ALL_APIS.iter().copied().filter(|a| !a.is_stream()) {
                // plain, Held and Ready
                for mode in [Mode::Held, Mode::Ready, Mode::SelfWake(1)] {
                    let mut r = mk(api);
                    r.modes = vec![mode; n];
                    if mode == Mode::Held {
                        both_orders(r, &mut out);
                    } else {
                        out.push(r);
                    }
                }
                if api.is_concurrent_call() {
                    let mut r = mk(api);
                    r.limit = Some(1);
                    out.push(r);
                }
                if api.is_try() {
                    let subs = subsets(n);
                    for s in subs.iter().filter(|s| tier == Tier::Thorough || s.len() <= 1 || s.len() == n) {
                        let mut r = mk(api);
                        r.fail = s.clone();
                        out.push(r.clone());
                        if api.has_opts() && s.len() == 1 {
                            r.reverse = true;
                            out.push(r);
                        }
                    }
                }
                if cfg_b && api.interruptible() {
                    for intr in [Intr::FinishCurrent, Intr::PollNextN(1), Intr::Ignore] {
                        for include in [true, false] {
                            let mut r = mk(api);
                            r.intr = intr;
                            r.include = include;
                            r.signal = SignalPlan::Tape;
                            out.push(r.clone());
                            if api.is_concurrent_call() {
                                r.limit = Some(1);
                                out.push(r);
                            }
                        }
                    }
                }
            }
        }
        "C05" => {
            for api in [Api::Stream, Api::StreamWith] {
                both_orders(mk(api), &mut out);
            }
            if cfg_b {
                both_orders(mk(Api::StreamIntr), &mut out);
                let mut r = mk(Api::StreamWithIntr);
                r.intr = Intr::Ignore;
                r.signal = SignalPlan::BeforeCall;
                both_orders(r, &mut out);
            }
            // early drop of the stream with refs outstanding
            let mut r = mk(Api::Stream);
            r.allow_drop = true;
            out.push(r);
            let mut r = mk(Api::Stream);
            r.spurious = 1;
            out.push(r);
        }
        "C07" => {
            for api in crate::spec::ALL_APIS.iter().copied().filter(|a| a.is_try()) {
                for s in subsets(n) {
                    for lim in [None, Some(1)] {
                        if lim.is_some() && !api.is_concurrent_call() {
                            continue;
                        }
                        for mode in [Mode::Held, Mode::Ready] {
                            if mode == Mode::Ready && lim.is_some() {
                                continue;
                            }
                            let mut r = mk(api);
                            r.fail = s.clone();
                            r.limit = lim;
                            r.modes = vec![mode; n];
                            both_orders(r, &mut out);
                        }
                    }
                }
            }
        }
        "C08" => {
            for api in crate::spec::ALL_APIS.iter().copied().filter(|a| a.interruptible()) {
                for intr in [Intr::FinishCurrent, Intr::PollNextN(0), Intr::PollNextN(1), Intr::PollNextN(2), Intr::Ignore] {
                    for include in [true, false] {
                        if api.is_stream() && !include {
                            continue;
                        }
                        let mut sigs = vec![SignalPlan::BeforeCall, SignalPlan::Tape];
                        if !api.is_stream() {
                            for f in 0..n as u32 {
                                sigs.push(SignalPlan::AtStart(f));
                                sigs.push(SignalPlan::AtEnd(f));
                            }
                        }
                        for sig in sigs {
                            for lim in [None, Some(1), Some(2)] {
                                if lim.is_some() && !api.is_concurrent_call() {
                                    continue;
                                }
                                let mut r = mk(api);
                                r.intr = intr;
                                r.include = include;
                                r.signal = sig;
                                r.limit = lim;
                                both_orders(r, &mut out);
                            }
                        }
                    }
                }
            }
        }
        _ => {}
    }
    let mut out: Vec<RunSpec> = out.into_iter().filter(|r| cfg_b || !r.api.needs_b()).map(|r| r.normalise(cfg_b)).collect();
    out.sort_by_key(|r| r.encode());
    out.dedup();
    out
}

/// Property specific observations (what the monitor actually saw), beyond the generic counters.
fn observe(prop: &str, st: &mut Stats, sub: &Subject, rs: &RunSpec, t: &Trace) {
    match prop {
        "C01" => {
            // how often did a conflicting pair actually both run (so the oracle had something to order)
            let n = sub.gs.n;
            let ran: Vec<usize> = t.log.iter().filter_map(|e| match e {
                Ev::Start(f) | Ev::Yield(f) | Ev::YieldIntr(f) => Some(*f as usize),
                _ => None,
            }).collect();
            if n <= 16 {
                let mut pairs = 0;
                for i in 0..ran.len() {
                    for j in i + 1..ran.len() {
                        if sub.gs.conflict(ran[i], ran[j]) {
                            pairs += 1;
                        }
                    }
                }
                st.add("conflicting_pairs_both_run", pairs);
            }
            st.max("max_in_flight", oracles::max_in_flight(t) as u64);
        }
        "C06" => {
            st.max("max_in_flight", oracles::max_in_flight(t) as u64);
            if sub.built.edges.iter().any(|e| e.2 == crate::model::BK::Data) {
                st.count("runs_on_graphs_with_data_edges");
            }
        }
        "C07" => {
            let failed = t.log.iter().filter(|e| matches!(e, Ev::End(_, false))).count() as u64;
            st.add("failures_observed", failed);
            if failed > 1 {
                st.count("runs_with_multiple_failures");
            }
            if failed > 0 {
                let started = t.log.iter().filter(|e| matches!(e, Ev::Start(_))).count();
                if started < sub.gs.n {
                    st.count("runs_where_failure_suppressed_functions");
                }
            }
        }
        "C08" => {
            if let Some(k) = oracles::starts_after_signal(t) {
                let before = !t.log[..t.log.iter().position(|e| *e == Ev::Signal).unwrap()].iter().any(|e| matches!(e, Ev::Poll | Ev::Spurious));
                let b = oracles::intr_bound(rs, before);
                let sig_pos = t.log.iter().position(|e| *e == Ev::Signal).unwrap();
                let last_pending_woken = t.log[..sig_pos].iter().rev().find_map(|e| if let Ev::Pending { woken } = e { Some(*woken) } else { None }).unwrap_or(false);
                let inside = rs.api.is_concurrent_call() && !before && (matches!(rs.signal, SignalPlan::AtStart(_) | SignalPlan::AtEnd(_)) || last_pending_woken);
                if inside {
                    // counted from the signal itself, i.e. including functions dequeued before it;
                    // the oracle counts from the next quiescent point (see o_intr)
                    st.count(&format!("after_signal_sent_while_concurrent_call_not_quiescent.{:?}={}", rs.intr, k));
                    st.count("signals_sent_while_concurrent_call_not_quiescent");
                } else {
                    st.count(&format!("after_signal.{:?}.inc{}.{}={}", rs.intr, rs.include as u8, if before { "before_call" } else { "midway" }, k));
                    if let Some(b) = b {
                        if k == b && b > 0 {
                            st.count("bound_reached");
                        }
                        st.count("signals_with_effective_strategy");
                    }
                }
            }
        }
        "C09" => {
            if let Some(o) = t.result.as_ref().and_then(|r| r.outcome.as_ref()) {
                st.count(&format!("outcome_state.{}", o.state));
            }
            if let Some(Some(c)) = t.result.as_ref().map(|r| r.control_continue) {
                st.count(if c { "control.continue" } else { "control.break" });
            }
        }
        "C10" => {
            let m = oracles::max_in_flight(t) as u64;
            if rs.api.is_concurrent_call() {
                match rs.limit {
                    None | Some(0) => {
                        st.max("max_in_flight_unlimited", m);
                        if m as usize == sub.gs.n && sub.gs.n >= 3 {
                            st.count("unlimited_run_reached_n_in_flight");
                        }
                    }
                    Some(l) => {
                        if m as usize == l {
                            st.count("limit_reached");
                        }
                        st.max("max_in_flight_limited", m);
                    }
                }
            }
        }
        "C05" => {
            if t.log.iter().any(|e| matches!(e, Ev::RefDrop(_, true))) {
                st.count("runs_with_drop_that_woke_consumer");
            }
            if t.term == Term::Returned {
                st.count("streams_run_to_none_or_dropped");
            }
        }
        "C04" => {
            if sub.gs.n == 0 {
                st.count(&format!("empty_graph.{}", rs.api.name()));
            }
        }
        _ => {}
    }
    if rs.intr != Intr::None {
        st.count(&format!("intr.{:?}", rs.intr).replace(['(', ')'], "_"));
    }
    if rs.reverse {
        st.count("reverse_order_runs");
    }
    if !rs.fail.is_empty() {
        st.count("runs_with_failing_functions");
    }
    if rs.limit.is_some() {
        st.count("runs_with_limit");
    }
}


/// C10 "any limit >= 1 still lets every graph run to completion": a limited run that blocks
/// (deadlock / lost wake-up / livelock, decided logically by the director) is re-executed without
/// the limit under three fresh schedules; if all of those return, the limit is what blocked it.
fn c10_limit_blocks(st: &mut Stats, sub: &mut Subject, rs: &RunSpec, tape: &Tape, t: &Trace, seed: u64) {
    if !rs.api.is_concurrent_call() || !matches!(rs.limit, Some(l) if l >= 1) {
        return;
    }
    // a panic counts as well (e.g. a limit value used where it cannot be): the differential below
    // makes sure it is the LIMIT that keeps the run from completing
    if !matches!(t.term, Term::Deadlock | Term::Livelock | Term::LostWake(_) | Term::Panicked(_)) || oracles::root_dropped(t) {
        return;
    }
    let mut unl = rs.clone();
    unl.limit = None;
    unl.allow_drop = false;
    for k in 0..3u64 {
        let mut tp = Tape::random(mix(seed ^ 0xd1ff, k));
        let t2 = crate::exec::run_case(&mut sub.g, &unl, &mut tp);
        if t2.term != Term::Returned {
            st.count("limited_run_blocked_but_so_does_the_unlimited_one");
            return;
        }
    }
    let v = Violation {
        prop: "C10",
        kind: "limit-blocks-completion",
        detail: format!("limit {:?}: the run does not complete ({:?}) although the same run without a limit returns under 3 schedules", rs.limit, t.term),
    };
    let case = format!("g={}|r={}|t={}", sub.gs.encode(), rs.encode(), tape.encode());
    st.violation(&v, case, crate::exec::log_str(&t.log, 200));
}

fn fixed_access(n: usize, which: usize) -> (Vec<crate::model::Mask>, Vec<crate::model::Mask>) {
    if which == 0 {
        (vec![0; n], vec![0; n])
    } else {
        // f0 writes, f1 reads, f2 writes, f3 reads ... of one type: conflicts everywhere
        ((0..n).map(|i| (i % 2) as crate::model::Mask).collect(), (0..n).map(|i| ((i + 1) % 2) as crate::model::Mask).collect())
    }
}

pub fn run(opts: &Opts, cfg_b: bool) -> Option<Stats> {
    let plan = plan(&opts.prop, opts.tier, cfg_b)?;
    let t0 = Instant::now();
    let deadline = t0 + opts.time_cap;
    let mut total = Stats::default();

    // ---- phase 1: exhaustive over small graphs ----
    let mut graphs: Vec<GraphSpec> = Vec::new();
    for n in 0..=plan.exh_max_n {
        for edges in DagEnum::new(n) {
            let calls: Vec<(u32, u32, EK)> = edges.iter().map(|&(a, b)| (a as u32, b as u32, EK::Logic)).collect();
            let variants = if plan.exh_access { gen::access_count(n, false) } else { 2.min(gen::access_count(n, false)) };
            for a in 0..variants {
                let (reads, writes) = if plan.exh_access { gen::access_assignment(n, false, a) } else { fixed_access(n, a) };
                graphs.push(GraphSpec { n, calls: calls.clone(), reads, writes });
            }
        }
    }
    let ngraphs = graphs.len() as u64;
    let prop = plan.prop;
    let check = plan.check;
    let tape_cap = plan.tape_cap;
    let tier = opts.tier;
    let exh = par_for(opts.jobs, ngraphs, 4, Some(deadline), |st: &mut Stats, i: u64, slot: &Slot| {
        let gs = graphs[i as usize].clone();
        let n = gs.n;
        let mut sub = match Subject::new(gs) {
            Ok(s) => s,
            Err(_) => {
                st.count("skipped_build_panicked");
                return;
            }
        };
        st.exhaustive_cases += 1;
        for rs in exh_runs(prop, n, cfg_b, tier) {
            set_what(slot, &sub.gs, &rs);
            let r = all_tapes(st, &mut sub, &rs, check, slot, tape_cap, |st, sub, tape, t| {
                observe(prop, st, sub, &rs, t);
                if st.samples.len() < 2 && sub.gs.n >= 3 && t.log.len() > 8 {
                    st.samples.push(sample_json(sub, &rs, tape, t));
                }
            });
            st.count("exhaustive.run_specs");
            if let Some(k) = r {
                st.add("exhaustive.tapes", k);
                st.max("exhaustive.max_tapes_per_case", k);
            }
        }
    });
    let exh_complete = !exh.exhaustive_cut && exh.exhaustive_cases == ngraphs && !exh.counters.contains_key("stopped_by_time_cap");
    total.merge(exh);
    total.add("exhaustive.graphs", ngraphs);
    total.add("exhaustive.complete", exh_complete as u64);
    total.add("exhaustive.max_n", plan.exh_max_n as u64);

    // ---- phase 2: seeded random ----
    let cases = ((plan.random_cases as f64) * opts.scale) as u64;
    let seed = opts.seed;
    let plan_ref = &plan;
    let q_tier = opts.tier == Tier::Quick;
    let huge_per_run: u64 = if q_tier { 3 } else { 9 };
    let rnd = par_for(opts.jobs, cases, 64, Some(deadline), |st: &mut Stats, i: u64, slot: &Slot| {
        let mut rng = Rng::new(mix(seed, i));
        // "huge" graphs: a handful per run, beyond the next powers of two above the wide sizes
        // (4096, and in the thorough tier 8192): internal buffers, batches and caps sized
        // by a round constant instead of by the graph show up here
        let huge = plan_ref.wide_every > 0 && cases >= 64 && i % (cases / huge_per_run).max(1) == 23 % (cases / huge_per_run).max(1);
        let wide = huge || (plan_ref.wide_every > 0 && i % plan_ref.wide_every == 0);
        // "medium" graphs: more functions ready at once than any small batch constant (8, 16, 32)
        let mid = !wide && i % 40 == 13;
        let many_types = !wide && !mid && i % 1500 == 750;
        let gs = if wide {
            let n = if huge {
                st.count("huge_graph_runs");
                match (q_tier, rng.below(4)) {
                    (true, _) | (false, 0) => rng.range(4100, 4700),
                    (false, _) => rng.range(8200, 9000),
                }
            } else {
                *rng.pick(&plan_ref.wide_sizes)
            };
            if prop == "C02" && rng.chance(3, 4) {
                // dependency counts: a function with n-1 direct dependencies / dependents
                let fam = if rng.chance(1, 2) { Family::FanIn } else { Family::FanOut };
                let mut gp = plan_ref.gprof;
                gp.hostile_calls = false;
                gp.types = 0;
                gen::random_graph_of(&mut rng, fam, n, &gp)
            } else if huge {
                // build() is cubic in the number of conflicting functions: a huge graph declares
                // accesses on a handful of functions only
                let fam = [Family::FanOut, Family::Isolated, Family::FanIn][((i / (cases / huge_per_run).max(1)) % 3) as usize];
                let mut gp = plan_ref.gprof;
                gp.hostile_calls = false;
                gp.types = 0;
                let mut gs = gen::random_graph_of(&mut rng, fam, n, &gp);
                if rng.chance(1, 2) {
                    for _ in 0..8 {
                        let f = rng.below(gs.n);
                        if rng.chance(1, 2) {
                            gs.writes[f] |= 1;
                        } else {
                            gs.reads[f] |= 1;
                        }
                    }
                }
                gs
            } else {
                gen::wide_graph(&mut rng, n)
            }
        } else if many_types {
            // more distinct TypeIds in one graph (up to 256, twins included) than fit in any
            // machine-word bit mask
            let fam = *rng.pick(&[Family::SparseEr, Family::Isolated, Family::Chain, Family::Layered]);
            let n = rng.range(40, 90);
            let mut gp = plan_ref.gprof;
            gp.hostile_calls = false;
            gp.types = rng.range(70, 128);
            gp.max_access = 4;
            st.count("graphs_with_more_than_128_type_ids_on_offer");
            gen::random_graph_of(&mut rng, fam, n, &gp)
        } else if mid {
            let fam = *rng.pick(&[Family::Isolated, Family::FanOut, Family::FanIn, Family::Layered, Family::SparseEr]);
            let n = rng.range(17, 48);
            let mut gp = plan_ref.gprof;
            gp.hostile_calls = false;
            gp.write_pct = gp.write_pct.min(25);
            gen::random_graph_of(&mut rng, fam, n, &gp)
        } else if !plan_ref.bias.is_empty() && rng.chance(1, 2) {
            let fam = *rng.pick(&plan_ref.bias);
            let n = rng.range(plan_ref.gprof.min_n, plan_ref.gprof.max_n);
            gen::random_graph_of(&mut rng, fam, n, &plan_ref.gprof)
        } else {
            gen::random_graph(&mut rng, &plan_ref.gprof)
        };
        let n = gs.n;
        let mut rs = gen::random_run(&mut rng, n, &plan_ref.rprof, cfg_b);
        if prop == "C06" && matches!(rs.intr, Intr::FinishCurrent | Intr::PollNextN(_)) {
            // C06 speaks about runs without interruption: keep the channel and the signal, but
            // with the strategy that must ignore it
            rs.intr = Intr::Ignore;
        }
        if mid {
            rs.batch = true;
            rs.greedy = rs.api.is_stream() && rng.chance(1, 2);
            st.count("medium_graph_runs");
        }
        if wide {
            // keep wide runs linear: everything ready at once, or held and released in bulk
            rs.modes = if rng.chance(1, 2) { vec![Mode::Ready; n] } else { vec![Mode::Held; n] };
            rs.batch = true;
            rs.spurious = 0;
            rs.greedy = rs.api.is_stream() && rng.chance(2, 3);
            if huge {
                rs = huge_run_spec(prop, plan_ref, cfg_b, &mut rng, &gs, i as usize);
            } else if rs.fail.len() > 3 && !rng.chance(1, 3) {
                rs.fail.truncate(3);
            }
            st.count("wide_graph_runs");
            st.max("max_functions_in_a_graph", n as u64);
        }
        set_what(slot, &gs, &rs);
        let mut sub = match Subject::new(gs) {
            Ok(s) => s,
            Err(_) => {
                st.count("skipped_build_panicked");
                return;
            }
        };
        let mut tape = Tape::random(mix(seed ^ 0x5eed, i));
        let t = exec_case(st, &mut sub, &rs, &mut tape, check, slot);
        if huge && std::env::var("FGV_HUGE_DEBUG").is_ok() {
            eprintln!("HUGE n={} calls={} api={:?} rev={} limit={:?} fail={} intr={:?} term={:?} events={}", n, sub.gs.calls.len(), rs.api, rs.reverse, rs.limit, rs.fail.len(), rs.intr, t.term, t.log.len());
        }
        observe(prop, st, &sub, &rs, &t);
        if prop == "C10" {
            c10_limit_blocks(st, &mut sub, &rs, &tape, &t, mix(seed, i));
        }
        if huge {
            // building a huge graph costs seconds, running it milliseconds: several more runs on
            // the same graph value, cycling through the plan's entry points, limits and failure
            // patterns (a graph can be run any number of times, C15)
            for rep in 1..HUGE_RUNS_PER_GRAPH {
                let gs2 = sub.gs.clone();
                let rs2 = huge_run_spec(prop, plan_ref, cfg_b, &mut rng, &gs2, i as usize + rep);
                set_what(slot, &gs2, &rs2);
                let mut tape2 = Tape::random(mix(seed ^ 0x5eed, i + rep as u64));
                let t2 = exec_case(st, &mut sub, &rs2, &mut tape2, check, slot);
                if std::env::var("FGV_HUGE_DEBUG").is_ok() {
                    eprintln!("HUGE+ n={} api={:?} rev={} limit={:?} fail={} intr={:?} term={:?} events={}", n, rs2.api, rs2.reverse, rs2.limit, rs2.fail.len(), rs2.intr, t2.term, t2.log.len());
                }
                observe(prop, st, &sub, &rs2, &t2);
                st.count("huge_graph_runs");
            }
        }
        if st.samples.len() < MAX_SAMPLES / 2 && n >= 3 && n <= 8 && t.log.len() > 10 && i % 97 == 0 {
            st.samples.push(sample_json(&sub, &rs, &tape, &t));
        }
    });
    total.add("random.cases_requested", cases);
    total.add("random.cases_run", rnd.evaluations);
    total.merge(rnd);

    // ---- phase 3: the same entry points inside a real tokio runtime (cooperative budget) ----
    if !matches!(prop, "C06" | "C08") {
        let rcases = ((if opts.tier == Tier::Quick { 1_500 } else { 40_000 }) as f64 * opts.scale) as u64;
        let rtm = par_for(opts.jobs, rcases, 8, Some(deadline), |st: &mut Stats, i: u64, slot: &Slot| {
            let mut rng = Rng::new(mix(seed ^ 0x7075, i));
            let wide = i % 4 == 0;
            let gs = if wide {
                let n = *rng.pick(&[65usize, 129, 200, 300]);
                gen::wide_graph(&mut rng, n)
            } else {
                gen::random_graph(&mut rng, &plan_ref.gprof)
            };
            let n = gs.n;
            let mut rs = gen::random_run(&mut rng, n, &plan_ref.rprof, cfg_b);
            rs.modes = match rng.below(if wide { 4 } else { 8 }) {
                // nothing ever yields to the runtime: the whole run happens inside one task poll,
                // which is what exhausts tokio's cooperative budget on graphs with > 64 functions
                0 | 1 => vec![Mode::Ready; n],
                2 => vec![Mode::SelfWake(1); n],
                _ => (0..n).map(|_| if rng.chance(2, 3) { Mode::Ready } else { Mode::SelfWake(rng.range(1, 2) as u8) }).collect(),
            };
            rs.batch = false;
            rs.spurious = 0;
            rs.allow_drop = false;
            if rs.signal != SignalPlan::Never {
                rs.signal = SignalPlan::BeforeCall;
            }
            set_what(slot, &gs, &rs);
            let mut sub = match Subject::new(gs) {
                Ok(s) => s,
                Err(_) => {
                    st.count("skipped_build_panicked");
                    return;
                }
            };
            let (t, hold) = if rs.api.is_stream() {
                let hold = *rng.pick(&[0usize, 0, 1, 3]);
                (crate::threads::runtime_stream_case(&sub.g, &rs, hold), hold)
            } else {
                (crate::threads::runtime_case(&mut sub.g, &rs), 0)
            };
            st.evaluations += 1;
            st.count("tokio_runtime.runs");
            if wide {
                st.count("tokio_runtime.wide_graph_runs");
            }
            st.add("events", t.log.len() as u64);
            st.count(&format!("api.{}", rs.api.name()));
            st.count(&format!("tokio_runtime.term.{}", crate::runner::term_name(&t)));
            let c = Ctx { gs: &sub.gs, ug: &sub.ug, built: &sub.built, rs: &rs };
            let mut out = Vec::new();
            if rs.api.is_stream() {
                // the runtime consumer does not record waker state, so the stall invariant is
                // replaced by its own logical verdict; the other oracles apply unchanged
                match prop {
                    "C05" => {
                        match &t.term {
                            Term::Stalled => out.push(Violation { prop: "C05", kind: "stall-in-tokio-runtime", detail: format!("stream consumed inside a tokio current-thread runtime (holding at most {hold} FnRefs) stayed pending with nothing held and no wake-up") }),
                            Term::Panicked(m) => out.push(Violation { prop: "C05", kind: "panic", detail: m.clone() }),
                            _ => {
                                let yields = t.log.iter().filter(|e| matches!(e, Ev::Yield(_) | Ev::YieldIntr(_))).count();
                                if yields != n && !oracles::interrupted_effectively(&rs, &t) {
                                    out.push(Violation { prop: "C05", kind: "none-before-all-yielded", detail: format!("inside a tokio runtime the stream returned None after {yields} of {n} functions (holding at most {hold} FnRefs)") });
                                }
                            }
                        }
                    }
                    _ => check(&c, &t, &mut out),
                }
            } else {
                check(&c, &t, &mut out);
            }
            for v in &out {
                let case = format!("g={}|r={}|rt=tokio_current_thread|hold={hold}", sub.gs.encode(), rs.encode());
                let mut v2 = v.clone();
                v2.detail = format!("[tokio current-thread runtime] {}", v.detail);
                st.violation(&v2, case, crate::exec::log_str(&t.log, 120));
            }
        });
        total.merge(rtm);
    }
    // ---- phase 4 (C05 only): FnRefs dropped on other threads, natively (thorough repeats it under TSan / Miri) ----
    if prop == "C05" {
        let xcases = ((if opts.tier == Tier::Quick { 600 } else { 20_000 }) as f64 * opts.scale) as u64;
        let xt = par_for(opts.jobs.min(4), xcases, 4, Some(deadline), |st: &mut Stats, i: u64, _slot: &Slot| {
            let mut rng = Rng::new(mix(seed ^ 0x7874, i));
            let gs = crate::threads::small_conflicting_graph(&mut rng, 8);
            let mut xs = crate::threads::XStats::default();
            let out = crate::threads::xthread_stream(&gs, mix(seed, i), 1 + (i % 3) as usize, i % 2 == 1, &mut xs);
            st.evaluations += 1;
            st.count("cross_thread.runs");
            st.add("cross_thread.fnrefs_dropped_on_other_threads", xs.cross_thread_drops);
            st.add("cross_thread.yields", xs.yields);
            st.add("events", xs.yields + xs.cross_thread_drops);
            for v in out.iter().filter(|v| v.prop == "C05") {
                st.violation(v, format!("g={}|xthread_seed={}|workers={}|rev={}", gs.encode(), mix(seed, i), 1 + (i % 3) as usize, (i % 2 == 1) as u8), String::new());
            }
        });
        total.merge(xt);
        let trials = if opts.tier == Tier::Quick { 60 } else { 1500 };
        let rc = par_for(opts.jobs.min(4), 4, 1, Some(deadline), |st: &mut Stats, i: u64, _slot: &Slot| {
            let (out, races) = crate::threads::xthread_drop_race(if i % 2 == 0 { 128 } else { 40 }, trials, i >= 2);
            st.evaluations += races;
            st.add("cross_thread.stream_drop_vs_fnref_drop_races", races);
            for v in &out {
                st.violation(v, format!("xthread_drop_race={}|n={}|rev={}", i, if i % 2 == 0 { 128 } else { 40 }, (i >= 2) as u8), String::new());
            }
        });
        total.merge(rc);
    }
    // ---- phase 4b (C04, C08; configuration B): signal-position sweep inside a tokio runtime ----
    // tokio's cooperative budget (128 operations per task poll) turns an await that "never waits"
    // into a Pending at one particular position of a wide run; an interrupt noticed exactly there
    // meets internal state (locks held across the await) that no other schedule produces. The
    // position cannot be aimed at, but it can be swept: n independent functions that complete at
    // once, the signal sent from inside the k-th function, for EVERY k.
    if (prop == "C04" || prop == "C08") && cfg_b {
        let q = opts.tier == Tier::Quick;
        let sizes: &[usize] = if q { &[60, 200] } else { &[30, 60, 140, 200, 300] };
        let mut items: Vec<(usize, Api, Intr, bool, bool)> = Vec::new();
        for &n in sizes {
            for api in [Api::ForEachWith, Api::ForEachMutWith, Api::TryForEachWith, Api::TryForEachMutWith, Api::ControlWith, Api::ControlMutWith] {
                for intr in [Intr::FinishCurrent, Intr::PollNextN(1)] {
                    for include in [true, false] {
                        for at_start in [false, true] {
                            if q && (at_start || (include && intr != Intr::FinishCurrent && n != 200)) {
                                continue;
                            }
                            items.push((n, api, intr, include, at_start));
                        }
                    }
                }
            }
        }
        let items_ref = &items;
        let sw = par_for(opts.jobs, items.len() as u64, 1, Some(deadline), |st: &mut Stats, i: u64, slot: &Slot| {
            let (n, api, intr, include, at_start) = items_ref[i as usize];
            let gs = GraphSpec::new(n);
            let Ok(mut sub) = Subject::new(gs) else { return };
            for k in 0..n as u32 {
                let mut rs = RunSpec::plain(api, n, if k % 2 == 0 { Mode::Ready } else { Mode::SelfWake(1) });
                rs.intr = intr;
                rs.include = include;
                rs.signal = if at_start { SignalPlan::AtStart(k) } else { SignalPlan::AtEnd(k) };
                rs.limit = [None, Some(3), Some(0)][(k % 3) as usize];
                let rs = rs.normalise(cfg_b);
                set_what(slot, &sub.gs, &rs);
                let t = crate::threads::runtime_case(&mut sub.g, &rs);
                st.evaluations += 1;
                st.count("tokio_runtime.signal_position_sweep_runs");
                st.add("events", t.log.len() as u64);
                let c = Ctx { gs: &sub.gs, ug: &sub.ug, built: &sub.built, rs: &rs };
                let mut out = Vec::new();
                if prop == "C04" {
                    check(&c, &t, &mut out);
                } else {
                    // C08: the numeric bounds are NOT asserted here - a signal sent from inside a
                    // function of a concurrent call is bounded only from the next quiescent point
                    // (section 4, C08), and the runtime trace has none. What is decided is the
                    // clause "functions already started are completed ... and the call returns".
                    match &t.term {
                        Term::Deadlock => out.push(Violation { prop: "C08", kind: "interrupted-call-never-returned", detail: "the interrupted call stayed pending with every started user future completed and no wake-up".into() }),
                        Term::Returned => {
                            if let Some(o) = t.result.as_ref().and_then(|r| r.outcome.as_ref()) {
                                for e in &t.log {
                                    if let Ev::Start(f) = e {
                                        if !o.processed.contains(f) {
                                            out.push(Violation { prop: "C08", kind: "started-not-reported-processed", detail: format!("function {f} was started but is missing from fn_ids_processed") });
                                            break;
                                        }
                                    }
                                }
                            }
                        }
                        _ => {}
                    }
                }
                for v in out.iter().filter(|v| v.prop == prop).take(1) {
                    let mut v2 = v.clone();
                    v2.detail = format!("[tokio current-thread runtime, signal sent from inside function {k} of {n} independent functions] {}", v.detail);
                    st.violation(&v2, format!("g={}|r={}|rt=tokio_current_thread|hold=0", sub.gs.encode(), rs.encode()), crate::exec::log_str(&t.log, 60));
                }
            }
        });
        total.merge(sw);
    }
    // ---- phase 5 (C08: bounds; C04: every call returns): consecutive calls sharing ONE InterruptibilityState via reborrow() ----
    #[cfg(feature = "b")]
    if (prop == "C08" || prop == "C04") && cfg_b {
        let scases = ((if opts.tier == Tier::Quick { 30_000 } else { 600_000 }) as f64 * opts.scale) as u64;
        let gprof = plan_ref.gprof;
        let ss = par_for(opts.jobs, scases, 64, Some(deadline), |st: &mut Stats, i: u64, _slot: &Slot| {
            let mut rng = Rng::new(mix(seed ^ 0x5a5e, i));
            let mut gp = gprof;
            gp.max_n = gp.max_n.min(9);
            gp.hostile_calls = false;
            let gs = gen::random_graph(&mut rng, &gp);
            let (out, made) = crate::sharedstate::shared_state_case(&gs, mix(seed, i));
            st.evaluations += 1;
            st.add("shared_state.calls", made);
            st.add("events", made);
            st.count("shared_state.sequences");
            if gs.n >= 2 && made >= 2 {
                st.distinct_insert(crate::runner::hash_of(&(crate::runner::hash_of(&gs), i)));
            }
            for v in out.iter().filter(|v| v.prop == prop) {
                st.violation(v, format!("g={}|shared_state_seed={}", gs.encode(), mix(seed, i)), String::new());
            }
        });
        total.merge(ss);
    }
    Some(total)
}

/// Coverage floors: a check that observed nothing (or not what it claims to cover) must not pass.
pub fn floors(prop: &str, st: &Stats, cfg_b: bool, tier: Tier) -> Vec<String> {
    let mut miss = Vec::new();
    let c = |k: &str| st.counters.get(k).copied().unwrap_or(0);
    if st.evaluations == 0 || c("events") == 0 {
        miss.push("no executions / events observed".to_string());
        return miss;
    }
    if let Some(p) = plan(prop, tier, cfg_b) {
        for a in &p.rprof.apis {
            if c(&format!("api.{}", a.name())) == 0 {
                miss.push(format!("api {} never exercised", a.name()));
            }
        }
    }
    match prop {
        "C01" => {
            if c("conflicting_pairs_both_run") == 0 {
                miss.push("no run executed two conflicting functions".into());
            }
        }
        "C04" => {
            if c("quiescent_points") == 0 {
                miss.push("no quiescent point reached".into());
            }
        }
        "C05" => {
            if c("runs_with_drop_that_woke_consumer") == 0 {
                miss.push("no FnRef drop woke the consumer".into());
            }
        }
        "C06" => {
            if c("quiescent_points") == 0 {
                miss.push("no quiescent point evaluated".into());
            }
        }
        "C07" => {
            if c("failures_observed") == 0 {
                miss.push("no failure observed".into());
            }
        }
        "C08" => {
            if c("signals_with_effective_strategy") == 0 {
                miss.push("no signal observed under an interrupting strategy".into());
            }
            if c("bound_reached") == 0 {
                miss.push("the interruption bound was never reached (monitor may be vacuous)".into());
            }
        }
        "C10" => {
            if c("limit_reached") == 0 {
                miss.push("no run ever reached its concurrency limit".into());
            }
            if c("unlimited_run_reached_n_in_flight") == 0 {
                miss.push("no unlimited run had all n functions in flight".into());
            }
        }
        _ => {}
    }
    miss
}
