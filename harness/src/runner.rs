//! Work distribution, statistics, violation bookkeeping shared by all checks.

use std::collections::{BTreeMap, HashSet};
use std::panic::{catch_unwind, AssertUnwindSafe};
use std::sync::atomic::{AtomicBool, AtomicU64, Ordering};
use std::sync::{Arc, Mutex};
use std::time::{Duration, Instant};

use fn_graph::FnGraph;

use crate::choice::Tape;
use crate::director::{panic_msg, Ev};
use crate::exec::{log_str, run_case, Trace};
use crate::json::J;
use crate::model::{Built, GraphSpec, UserGraph};
use crate::oracles::{Ctx, Violation};
use crate::spec::RunSpec;
use crate::tfn::{self, TFn};

#[derive(Clone, Copy, Debug, PartialEq, Eq)]
pub enum Tier {
    Quick,
    Thorough,
}

#[derive(Clone, Debug)]
pub struct Opts {
    pub prop: String,
    pub tier: Tier,
    pub seed: u64,
    pub jobs: usize,
    /// Scale factor on case counts (1.0 = calibrated default).
    pub scale: f64,
    /// Soft wall-clock cap for the generation loops (not a verdict).
    pub time_cap: Duration,
}

#[derive(Clone, Debug)]
pub struct Found {
    pub prop: String,
    pub kind: String,
    pub detail: String,
    /// Everything needed to re-execute: `g=..|r=..|t=..` (config and property are added by main).
    pub case: String,
    pub log: String,
}

#[derive(Default)]
pub struct Stats {
    pub evaluations: u64,
    pub distinct: HashSet<u64>,
    pub counters: BTreeMap<String, u64>,
    pub maxes: BTreeMap<String, u64>,
    pub samples: Vec<J>,
    pub found: Vec<Found>,
    pub violation_count: u64,
    pub inconclusive: Vec<String>,
    /// Set to false when an enumeration that was meant to be complete was cut short.
    pub exhaustive_cut: bool,
    pub exhaustive_cases: u64,
}

pub const MAX_FOUND: usize = 40;
pub const MAX_SAMPLES: usize = 6;
pub const DISTINCT_CAP: usize = 4_000_000;

impl Stats {
    pub fn count(&mut self, k: &str) {
        self.add(k, 1);
    }
    pub fn add(&mut self, k: &str, v: u64) {
        if let Some(c) = self.counters.get_mut(k) {
            *c += v;
        } else {
            self.counters.insert(k.to_string(), v);
        }
    }
    pub fn max(&mut self, k: &str, v: u64) {
        let e = self.maxes.entry(k.to_string()).or_insert(0);
        if v > *e {
            *e = v;
        }
    }
    pub fn distinct_insert(&mut self, h: u64) {
        if self.distinct.len() < DISTINCT_CAP {
            self.distinct.insert(h);
        }
    }
    pub fn violation(&mut self, v: &Violation, case: String, log: String) {
        self.violation_count += 1;
        self.count(&format!("violation.{}.{}", v.prop, v.kind));
        // keep the first few per kind
        let same = self.found.iter().filter(|f| f.kind == v.kind).count();
        if self.found.len() < MAX_FOUND && same < 3 {
            self.found.push(Found { prop: v.prop.to_string(), kind: v.kind.to_string(), detail: v.detail.clone(), case, log });
        }
    }
    pub fn merge(&mut self, o: Stats) {
        self.evaluations += o.evaluations;
        for h in o.distinct {
            self.distinct_insert(h);
        }
        for (k, v) in o.counters {
            self.add(&k, v);
        }
        for (k, v) in o.maxes {
            self.max(&k, v);
        }
        for s in o.samples {
            if self.samples.len() < MAX_SAMPLES {
                self.samples.push(s);
            }
        }
        for f in o.found {
            let same = self.found.iter().filter(|x| x.kind == f.kind).count();
            if self.found.len() < MAX_FOUND && same < 3 {
                self.found.push(f);
            }
        }
        self.violation_count += o.violation_count;
        self.inconclusive.extend(o.inconclusive);
        self.exhaustive_cut |= o.exhaustive_cut;
        self.exhaustive_cases += o.exhaustive_cases;
    }
}

/// What the watchdog looks at.
pub struct Slot {
    pub started_ms: AtomicU64,
    pub what: Mutex<String>,
}

pub struct Pool {
    pub slots: Vec<Arc<Slot>>,
    pub t0: Instant,
    pub stop: Arc<AtomicBool>,
}

/// Per-case watchdog limit. Firing is *inconclusive*, never a violation.
pub const WATCHDOG: Duration = Duration::from_secs(120);

/// Runs `work(worker_stats, item_index, slot)` for item indices 0..total on `jobs` threads with
/// dynamic chunking. Items derive their randomness from their index, so results do not depend on
/// which thread ran them.
pub fn par_for<F>(jobs: usize, total: u64, chunk: u64, deadline: Option<Instant>, work: F) -> Stats
where
    F: Fn(&mut Stats, u64, &Slot) + Sync,
{
    let next = AtomicU64::new(0);
    let t0 = Instant::now();
    let done = AtomicBool::new(false);
    let slots: Vec<Arc<Slot>> =
        (0..jobs).map(|_| Arc::new(Slot { started_ms: AtomicU64::new(0), what: Mutex::new(String::new()) })).collect();
    let mut total_stats = Stats::default();
    let hung: Mutex<Vec<String>> = Mutex::new(Vec::new());
    std::thread::scope(|s| {
        let mut handles = Vec::new();
        for w in 0..jobs {
            let slot = slots[w].clone();
            let next = &next;
            let work = &work;
            handles.push(
                std::thread::Builder::new()
                    .stack_size(256 << 20)
                    .spawn_scoped(s, move || {
                        let mut st = Stats::default();
                        loop {
                            if let Some(d) = deadline {
                                if Instant::now() >= d {
                                    st.count("stopped_by_time_cap");
                                    break;
                                }
                            }
                            let a = next.fetch_add(chunk, Ordering::Relaxed);
                            if a >= total {
                                break;
                            }
                            let b = (a + chunk).min(total);
                            for i in a..b {
                                slot.started_ms.store(t0.elapsed().as_millis() as u64 + 1, Ordering::Relaxed);
                                work(&mut st, i, &slot);
                                slot.started_ms.store(0, Ordering::Relaxed);
                            }
                        }
                        st
                    })
                    .unwrap(),
            );
        }
        // watchdog
        let slots_w = slots.clone();
        let done_ref = &done;
        let hung_ref = &hung;
        let wd = s.spawn(move || {
            while !done_ref.load(Ordering::Relaxed) {
                std::thread::sleep(Duration::from_millis(200));
                let now = t0.elapsed().as_millis() as u64;
                for sl in &slots_w {
                    let st = sl.started_ms.load(Ordering::Relaxed);
                    if st != 0 && now.saturating_sub(st) > WATCHDOG.as_millis() as u64 {
                        let what = sl.what.lock().unwrap().clone();
                        hung_ref.lock().unwrap().push(what.clone());
                        // A worker stuck inside the library cannot be cancelled: report and leave.
                        println!("INCONCLUSIVE reason=watchdog case={what}");
                        std::process::exit(2);
                    }
                }
            }
        });
        for h in handles {
            match h.join() {
                Ok(st) => total_stats.merge(st),
                Err(p) => total_stats.inconclusive.push(format!("worker panicked: {}", panic_msg(p))),
            }
        }
        done.store(true, Ordering::Relaxed);
        let _ = wd.join();
    });
    total_stats
}

pub fn install_quiet_panic_hook() {
    std::panic::set_hook(Box::new(|_| {}));
}

/// A real graph plus everything the oracles need to know about it.
pub struct Subject {
    pub gs: GraphSpec,
    pub ug: UserGraph,
    pub g: FnGraph<TFn>,
    pub built: Built,
}

impl Subject {
    /// None if `build()` panicked (that is C11's business; others count it as skipped).
    pub fn new(gs: GraphSpec) -> Result<Subject, String> {
        let ug = UserGraph::from_spec(&gs);
        // The empty graph can also be made without the builder (`FnGraph::new()`): alternate.
        thread_local! { static FLIP: std::cell::Cell<bool> = const { std::cell::Cell::new(false) }; }
        let direct = gs.n == 0 && FLIP.with(|f| { f.set(!f.get()); f.get() });
        let g = tfn::guarded(gs.n, || catch_unwind(AssertUnwindSafe(|| if direct { FnGraph::new() } else { tfn::build(&gs) }))).map_err(panic_msg)?;
        let built = tfn::built_of(&g);
        Ok(Subject { gs, ug, g, built })
    }
}

pub fn trace_sig(gs_hash: u64, rs: &RunSpec, t: &Trace) -> u64 {
    use std::hash::{Hash, Hasher};
    let mut h = std::collections::hash_map::DefaultHasher::new();
    gs_hash.hash(&mut h);
    rs.api.hash(&mut h);
    rs.reverse.hash(&mut h);
    for e in &t.log {
        match e {
            Ev::Start(_) | Ev::End(..) | Ev::Yield(_) | Ev::YieldIntr(_) | Ev::RefDrop(..) | Ev::Signal | Ev::Cancelled(_) | Ev::IntrNone => e.hash(&mut h),
            _ => {}
        }
    }
    h.finish()
}

pub fn hash_of<T: std::hash::Hash>(x: &T) -> u64 {
    use std::hash::Hasher;
    let mut h = std::collections::hash_map::DefaultHasher::new();
    x.hash(&mut h);
    h.finish()
}

pub type CheckFn = fn(&Ctx, &Trace, &mut Vec<Violation>);

/// Executes one case, applies `check`, updates statistics. Returns the trace.
pub fn exec_case(st: &mut Stats, sub: &mut Subject, rs: &RunSpec, tape: &mut Tape, check: CheckFn, slot: &Slot) -> Trace {
    let _ = slot;
    let t = run_case(&mut sub.g, rs, tape);
    st.evaluations += 1;
    st.add("events", t.log.len() as u64);
    st.add("quiescent_points", t.quiescent as u64);
    st.add("polls", t.polls as u64);
    let pe = crate::director::POST_END_POLLS.with(|c| c.replace(0));
    if pe > 0 {
        st.add("polls_after_stream_end", pe);
    }
    let md = crate::director::MID_POLL_DROPS.with(|c| c.replace(0));
    if md > 0 {
        st.add("fnrefs_dropped_in_the_middle_of_a_poll", md);
    }
    let fc = crate::director::FNREF_CLONES.with(|c| c.replace(0));
    if fc > 0 {
        st.add("fnref_clones_made_and_dropped", fc);
    }
    let hands = t.log.iter().filter(|e| matches!(e, Ev::Start(_) | Ev::Yield(_) | Ev::YieldIntr(_))).count();
    st.add("functions_handed_out", hands as u64);
    if sub.gs.n >= 2 && hands >= 2 {
        st.distinct_insert(trace_sig(hash_of(&sub.gs), rs, &t));
    }
    st.count(&format!("api.{}", rs.api.name()));
    st.count(&format!("term.{}", term_name(&t)));
    let c = Ctx { gs: &sub.gs, ug: &sub.ug, built: &sub.built, rs };
    let mut out = Vec::new();
    check(&c, &t, &mut out);
    for v in &out {
        let case = format!("g={}|r={}|t={}", sub.gs.encode(), rs.encode(), tape.encode());
        st.violation(v, case, log_str(&t.log, 200));
    }
    t
}

pub fn term_name(t: &Trace) -> &'static str {
    use crate::director::Term::*;
    match &t.term {
        Returned => "returned",
        Deadlock => "deadlock",
        LostWake(_) => "lost_wakeup",
        Panicked(_) => "panicked",
        Dropped => "dropped",
        Livelock => "livelock",
        Stalled => "stalled",
    }
}

pub fn set_what(slot: &Slot, gs: &GraphSpec, rs: &RunSpec) {
    let mut w = slot.what.lock().unwrap();
    w.clear();
    w.push_str(&format!("g={}|r={}|t=(running)", gs.encode(), rs.encode()));
}

pub fn sample_json(sub: &Subject, rs: &RunSpec, tape: &Tape, t: &Trace) -> J {
    J::obj(vec![
        ("graph", J::s(sub.gs.encode())),
        ("built_edges", J::s(format!("{:?}", sub.built.edges.iter().take(40).collect::<Vec<_>>()))),
        ("run", J::s(rs.encode())),
        ("tape", J::s(tape.encode())),
        ("terminated", J::s(term_name(t))),
        ("events", J::s(log_str(&t.log, 120))),
        ("result", J::s(format!("{:?}", t.result))),
    ])
}

/// Explores *every* tape of (subject, run spec), depth first. Returns number of tapes, or None if
/// the cap was hit.
pub fn all_tapes(
    st: &mut Stats,
    sub: &mut Subject,
    rs: &RunSpec,
    check: CheckFn,
    slot: &Slot,
    cap: u64,
    mut on_trace: impl FnMut(&mut Stats, &Subject, &Tape, &Trace),
) -> Option<u64> {
    let mut prefix: Vec<u32> = Vec::new();
    let mut count = 0u64;
    loop {
        let mut tape = Tape::forced(prefix);
        let t = exec_case(st, sub, rs, &mut tape, check, slot);
        on_trace(st, sub, &tape, &t);
        count += 1;
        match tape.next_prefix() {
            Some(p) => prefix = p,
            None => return Some(count),
        }
        if count >= cap {
            st.exhaustive_cut = true;
            st.count("tape_enumerations_cut_by_cap");
            return None;
        }
    }
}
