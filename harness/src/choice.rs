//! PRNG and choice tapes.

#[derive(Clone, Debug)]
pub struct Rng(pub u64);

impl Rng {
    pub fn new(seed: u64) -> Rng {
        let mut r = Rng(seed ^ 0x9E37_79B9_7F4A_7C15);
        r.next();
        r
    }
    /// splitmix64
    #[inline]
    pub fn next(&mut self) -> u64 {
        self.0 = self.0.wrapping_add(0x9E37_79B9_7F4A_7C15);
        let mut z = self.0;
        z = (z ^ (z >> 30)).wrapping_mul(0xBF58_476D_1CE4_E5B9);
        z = (z ^ (z >> 27)).wrapping_mul(0x94D0_49BB_1331_11EB);
        z ^ (z >> 31)
    }
    #[inline]
    pub fn below(&mut self, k: usize) -> usize {
        if k <= 1 {
            0
        } else {
            (self.next() % k as u64) as usize
        }
    }
    #[inline]
    pub fn chance(&mut self, num: u64, den: u64) -> bool {
        self.next() % den < num
    }
    pub fn range(&mut self, lo: usize, hi_incl: usize) -> usize {
        lo + self.below(hi_incl - lo + 1)
    }
    pub fn shuffle<T>(&mut self, v: &mut [T]) {
        for i in (1..v.len()).rev() {
            let j = self.below(i + 1);
            v.swap(i, j);
        }
    }
    pub fn pick<'a, T>(&mut self, v: &'a [T]) -> &'a T {
        &v[self.below(v.len())]
    }
}

pub fn mix(a: u64, b: u64) -> u64 {
    let mut r = Rng(a ^ b.wrapping_mul(0xD6E8_FEB8_6659_FD93));
    r.next()
}

/// Every decision the explorer takes goes through `choose`.
///
/// * replay / exhaustive mode: the first `prefix.len()` decisions are forced, the rest is 0
///   (exhaustive) or drawn from `rng` (random);
/// * all decisions are recorded in `taken` as (choice, arity) so a run can be replayed exactly
///   and so the exhaustive enumerator can advance like an odometer.
#[derive(Clone, Debug)]
pub struct Tape {
    pub prefix: Vec<u32>,
    pub taken: Vec<(u32, u32)>,
    pub rng: Option<Rng>,
}

impl Tape {
    pub fn random(seed: u64) -> Tape {
        Tape { prefix: Vec::new(), taken: Vec::new(), rng: Some(Rng::new(seed)) }
    }
    pub fn forced(prefix: Vec<u32>) -> Tape {
        Tape { prefix, taken: Vec::new(), rng: None }
    }
    #[inline]
    pub fn choose(&mut self, k: usize) -> usize {
        if k <= 1 {
            return 0;
        }
        let pos = self.taken.len();
        let c = if pos < self.prefix.len() {
            (self.prefix[pos] as usize).min(k - 1)
        } else if let Some(r) = self.rng.as_mut() {
            r.below(k)
        } else {
            0
        };
        self.taken.push((c as u32, k as u32));
        c
    }
    /// Weighted coin: true with probability num/den in random mode; a plain binary choice
    /// (0 = false) in forced/exhaustive mode.
    #[inline]
    pub fn coin(&mut self, num: u64, den: u64) -> bool {
        let pos = self.taken.len();
        let c = if pos < self.prefix.len() {
            self.prefix[pos].min(1) as usize
        } else if let Some(r) = self.rng.as_mut() {
            r.chance(num, den) as usize
        } else {
            0
        };
        self.taken.push((c as u32, 2));
        c == 1
    }
    pub fn choices(&self) -> Vec<u32> {
        self.taken.iter().map(|t| t.0).collect()
    }
    /// Next prefix in depth-first order, or None when the tree is exhausted.
    pub fn next_prefix(&self) -> Option<Vec<u32>> {
        let mut t = self.taken.clone();
        while let Some(&(c, k)) = t.last() {
            if c + 1 < k {
                let l = t.len();
                t[l - 1].0 = c + 1;
                return Some(t.iter().map(|x| x.0).collect());
            }
            t.pop();
        }
        None
    }
    pub fn encode(&self) -> String {
        self.taken.iter().map(|t| t.0.to_string()).collect::<Vec<_>>().join(".")
    }
    pub fn decode(s: &str) -> Result<Vec<u32>, String> {
        if s.is_empty() {
            return Ok(Vec::new());
        }
        s.split('.').map(|x| x.parse::<u32>().map_err(|e| e.to_string())).collect()
    }
}
