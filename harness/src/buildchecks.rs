//! Monitors for the builder half: C11, C12, C13, C14, C16, C17, C18.
//!
//! There is no schedule here: each monitor evaluates a reference model next to the real code, on
//! exhaustively enumerated small inputs and on seeded random larger ones.

use std::panic::{catch_unwind, AssertUnwindSafe};
use std::time::Instant;

use fn_graph::{FnGraph, FnGraphBuilder};

use crate::choice::{mix, Rng};
use crate::director::panic_msg;
use crate::gen::{self, DagEnum, Family, GraphProfile};
use crate::json::J;
use crate::model::{expected_data_edges, Built, GraphSpec, UserGraph, BK, EK};
use crate::oracles::Violation;
use crate::runner::{hash_of, par_for, Opts, Slot, Stats, Tier};
use crate::tfn::{self, TFn, ACCESS_QUERIES};

fn v(prop: &'static str, kind: &'static str, detail: String) -> Violation {
    Violation { prop, kind, detail }
}

pub type GraphCheck = fn(&GraphSpec, &mut Stats, &mut Vec<Violation>);

fn real_build(gs: &GraphSpec) -> Result<(FnGraph<TFn>, tfn::BuildLog), String> {
    tfn::guarded(gs.n, || {
        catch_unwind(AssertUnwindSafe(|| {
            let (b, log) = tfn::builder_from_spec(gs);
            (b.build(), log)
        }))
        .map_err(panic_msg)
    })
}

// ------------------------------------------------------------------------------------------ C11

pub fn check_c11(gs: &GraphSpec, st: &mut Stats, out: &mut Vec<Violation>) {
    let n = gs.n;
    let ug = UserGraph::from_spec(gs);
    let (g, log) = match real_build(gs) {
        Ok(x) => x,
        Err(m) => {
            out.push(v("C11", "build-panicked", format!("build() panicked: {m}")));
            return;
        }
    };
    if g.graph.node_count() != n {
        out.push(v("C11", "node-count", format!("{} nodes, {} functions added", g.graph.node_count(), n)));
        return;
    }
    for i in 0..n {
        if log.ids[i] != i {
            out.push(v("C11", "fn-id", format!("add_fn #{i} returned id {}", log.ids[i])));
            return;
        }
    }
    for (i, f) in g.iter_insertion().enumerate() {
        if f.idx != i || f.reads != gs.reads[i] || f.writes != gs.writes[i] {
            out.push(v("C11", "function-misplaced", format!("node {i} holds function {}", f.idx)));
            return;
        }
    }
    let built = tfn::built_of(&g);
    if !built.is_acyclic() {
        out.push(v("C11", "cyclic", format!("built graph has a cycle: {:?}", built.edges)));
        return;
    }
    // one edge per ordered pair
    let mut pairs: Vec<(usize, usize)> = built.edges.iter().map(|e| (e.0, e.1)).collect();
    pairs.sort_unstable();
    if pairs.windows(2).any(|w| w[0] == w[1]) {
        out.push(v("C11", "duplicate-edge", format!("two edges on one ordered pair: {:?}", built.edges)));
        return;
    }
    // user edges kept with kind unchanged; additional edges only Data
    for &(a, b, k) in &ug.edges {
        match built.edges.iter().find(|e| e.0 == a && e.1 == b) {
            None => {
                out.push(v("C11", "user-edge-missing", format!("accepted edge {a}->{b} ({k:?}) is not in the built graph")));
                return;
            }
            Some(e) if e.2 != BK::from(k) => {
                out.push(v("C11", "user-edge-kind-changed", format!("edge {a}->{b} was added as {k:?}, built graph has {:?}", e.2)));
                return;
            }
            _ => {}
        }
    }
    for &(a, b, k) in &built.edges {
        let user = ug.edges.iter().any(|e| e.0 == a && e.1 == b);
        if !user && k != BK::Data {
            out.push(v("C11", "extra-non-data-edge", format!("built graph has {k:?} edge {a}->{b} the user never added")));
            return;
        }
        if k == BK::Data && !gs.conflict(a, b) {
            out.push(v("C11", "data-edge-without-conflict", format!("Data edge {a}->{b} joins functions that do not conflict")));
            return;
        }
    }
    let reach = built.reach();
    let mut conflicting = 0u64;
    for a in 0..n {
        for b in a + 1..n {
            if gs.conflict(a, b) {
                conflicting += 1;
                if !reach.get(a, b) && !reach.get(b, a) {
                    out.push(v("C11", "conflicting-pair-unordered", format!("functions {a} and {b} conflict but no directed path joins them")));
                    return;
                }
            }
        }
    }
    st.add("conflicting_pairs_checked", conflicting);
    st.add("data_edges_seen", built.edges.iter().filter(|e| e.2 == BK::Data).count() as u64);
    st.add("user_edges_seen", ug.edges.len() as u64);
    st.add("rejected_calls_seen", ug.accepted.iter().filter(|a| !**a).count() as u64);
}

// ------------------------------------------------------------------------------------------ C12

/// One change to the builder call sequence that changes the *effective* user graph.
fn mutate(gs: &GraphSpec, ug: &UserGraph, rng: &mut Rng) -> Option<(GraphSpec, &'static str)> {
    let n = gs.n;
    for _ in 0..8 {
        match rng.below(3) {
            0 if n > 0 => {
                // change a function
                let i = rng.below(n);
                let mut m = gs.clone();
                let bit: crate::model::Mask = 1 << rng.below(3);
                if rng.chance(1, 2) {
                    m.reads[i] ^= bit;
                } else {
                    m.writes[i] ^= bit;
                }
                return Some((m, "function"));
            }
            1 if !ug.edges.is_empty() => {
                // flip the kind of an effective edge: append a call on the same pair
                let &(a, b, k) = rng.pick(&ug.edges);
                let mut m = gs.clone();
                let nk = if k == EK::Logic { EK::Contains } else { EK::Logic };
                m.calls.push((a as u32, b as u32, nk));
                return Some((m, "edge-kind"));
            }
            2 if !ug.edges.is_empty() && n >= 3 => {
                // move an endpoint of an effective edge
                let &(a, b, _) = rng.pick(&ug.edges);
                let c = rng.below(n);
                if c == a || c == b {
                    continue;
                }
                let mut m = gs.clone();
                // rewrite every call on (a,b) to (a,c)
                for call in m.calls.iter_mut() {
                    if call.0 as usize == a && call.1 as usize == b {
                        call.1 = c as u32;
                    }
                }
                let mug = UserGraph::from_spec(&m);
                let mut e1: Vec<_> = ug.edges.clone();
                let mut e2: Vec<_> = mug.edges.clone();
                e1.sort();
                e2.sort();
                if e1 != e2 {
                    return Some((m, "edge-endpoint"));
                }
            }
            _ => {}
        }
    }
    None
}

pub fn check_c12(gs: &GraphSpec, st: &mut Stats, out: &mut Vec<Violation>) {
    let n = gs.n;
    let ug = UserGraph::from_spec(gs);
    let Ok((g, _)) = real_build(gs) else {
        st.count("skipped_build_panicked");
        return;
    };
    let built = tfn::built_of(&g);
    if !built.is_acyclic() {
        st.count("skipped_cyclic");
        return;
    }
    let ranks = ug.ranks();
    let reach = built.reach();
    let mut ordered_by_rule = 0u64;
    for a in 0..n {
        for b in a + 1..n {
            if gs.conflict(a, b) && !ug.reach.get(a, b) && !ug.reach.get(b, a) {
                let (first, second) = if (ranks[a], a) <= (ranks[b], b) { (a, b) } else { (b, a) };
                ordered_by_rule += 1;
                if !reach.get(first, second) {
                    out.push(v(
                        "C12",
                        "wrong-direction",
                        format!(
                            "conflicting functions {first} (rank {}, inserted #{first}) and {second} (rank {}, inserted #{second}) are not ordered by user edges; built graph does not order {first} before {second}",
                            ranks[first], ranks[second]
                        ),
                    ));
                    return;
                }
            }
        }
    }
    st.add("pairs_ordered_by_rank_rule", ordered_by_rule);
    // non-redundancy
    for (i, &(a, b, k)) in built.edges.iter().enumerate() {
        if k != BK::Data {
            continue;
        }
        let rest: Vec<_> = built.edges.iter().enumerate().filter(|(j, _)| *j != i).map(|(_, e)| *e).collect();
        let r = Built::new(n, rest).reach();
        if r.get(a, b) {
            out.push(v("C12", "redundant-data-edge", format!("Data edge {a}->{b} repeats an ordering implied by other edges")));
            return;
        }
    }
    // independent re-implementation
    let mut want = expected_data_edges(gs, &ug);
    let mut got: Vec<(usize, usize)> = built.edges.iter().filter(|e| e.2 == BK::Data).map(|e| (e.0, e.1)).collect();
    want.sort_unstable();
    got.sort_unstable();
    if want != got {
        out.push(v("C12", "data-edges-differ-from-reference", format!("expected Data edges {want:?}, built {got:?}")));
        return;
    }
    st.add("data_edges_compared", got.len() as u64);
    // determinism and ==
    let Ok((g2, _)) = real_build(gs) else {
        out.push(v("C12", "second-build-panicked", "building the same calls a second time panicked".into()));
        return;
    };
    if !(g == g2) || g.ranks() != g2.ranks() {
        out.push(v("C12", "same-calls-unequal", "two builds of the same call sequence compare unequal (or ranks differ)".into()));
        return;
    }
    if tfn::built_of(&g2).edges != built.edges {
        out.push(v("C12", "nondeterministic-edges", "two builds of the same call sequence have different edge lists".into()));
        return;
    }
    // a change anywhere must be visible to ==
    let mut rng = Rng::new(hash_of(gs));
    for _ in 0..3 {
        if let Some((m, what)) = mutate(gs, &ug, &mut rng) {
            if let Ok((gm, _)) = real_build(&m) {
                st.count(&format!("mutations_compared.{what}"));
                if g == gm {
                    out.push(v("C12", "changed-calls-equal", format!("changing a {what} ({} -> {}) yields a graph that compares equal", gs.encode(), m.encode())));
                    return;
                }
            }
        }
    }
}

// ------------------------------------------------------------------------------------------ C13

pub fn check_c13(gs: &GraphSpec, st: &mut Stats, out: &mut Vec<Violation>) {
    let ug = UserGraph::from_spec(gs);
    let Ok((g, _)) = real_build(gs) else {
        st.count("skipped_build_panicked");
        return;
    };
    let want = ug.ranks();
    let got: Vec<usize> = g.ranks().iter().map(|r| r.0).collect();
    if want != got {
        out.push(v("C13", "rank-mismatch", format!("ranks() = {got:?}, longest chains of user edges = {want:?}")));
    }
    st.max("max_rank_seen", want.iter().copied().max().unwrap_or(0) as u64);
    if want.iter().any(|&r| r >= 2) {
        st.count("graphs_with_rank_ge_2");
    }
}

// ------------------------------------------------------------------------------------------ C14

fn order_violation(built: &Built, order: &[usize], reverse: bool) -> Option<String> {
    let n = built.n;
    let mut pos = vec![usize::MAX; n];
    for (i, &f) in order.iter().enumerate() {
        if f >= n {
            return Some(format!("visited unknown function {f}"));
        }
        if pos[f] != usize::MAX {
            return Some(format!("function {f} visited twice"));
        }
        pos[f] = i;
    }
    if order.len() != n {
        return Some(format!("visited {} of {n} functions", order.len()));
    }
    for &(a, b, k) in &built.edges {
        let ok = if reverse { pos[b] < pos[a] } else { pos[a] < pos[b] };
        if !ok {
            return Some(format!("{k:?} edge {a}->{b} but {} visited before {}", if reverse { a } else { b }, if reverse { b } else { a }));
        }
    }
    None
}

pub fn check_c14(gs: &GraphSpec, st: &mut Stats, out: &mut Vec<Violation>) {
    let n = gs.n;
    let Ok((mut g, _)) = real_build(gs) else {
        st.count("skipped_build_panicked");
        return;
    };
    let built = tfn::built_of(&g);
    if !built.is_acyclic() {
        st.count("skipped_cyclic");
        return;
    }
    if built.edges.iter().any(|e| e.2 == BK::Data) {
        st.count("graphs_with_data_edges");
    }
    let r = catch_unwind(AssertUnwindSafe(|| {
        let mut res: Vec<(&'static str, bool, Vec<usize>)> = Vec::new();
        res.push(("iter", false, g.iter().map(|f| f.idx).collect()));
        res.push(("iter_rev", true, g.iter_rev().map(|f| f.idx).collect()));
        {
            let mut topo = g.toposort();
            let mut o = Vec::new();
            while let Some(id) = topo.next(&g.graph) {
                o.push(id.index());
                if o.len() > n + 1 {
                    break;
                }
            }
            res.push(("toposort", false, o));
        }
        res.push(("map", false, g.map(|f| f.idx).collect()));
        {
            // the iterator returned by map(), consumed in two parts
            let k = n / 2;
            let mut it = g.map(|f| f.idx);
            let mut first: Vec<usize> = it.by_ref().take(k).collect();
            let rest: Vec<usize> = it.collect();
            first.extend(rest);
            res.push(("map(consumed in two parts)", false, first));
        }
        res.push(("fold", false, g.fold(Vec::new(), |mut s, f| {
            s.push(f.idx);
            s
        })));
        res.push(("try_fold", false, g
            .try_fold(Vec::new(), |mut s, f| {
                s.push(f.idx);
                Ok::<_, ()>(s)
            })
            .unwrap()));
        let mut o = Vec::new();
        g.for_each(|f| o.push(f.idx));
        res.push(("for_each", false, o));
        let mut o = Vec::new();
        g.try_for_each(|f| {
            o.push(f.idx);
            Ok::<_, ()>(())
        })
        .unwrap();
        res.push(("try_for_each", false, o));
        {
            // a clone (and a clone of the clone) is a graph like any other
            let c = g.clone();
            res.push(("iter(clone)", false, c.iter().map(|f| f.idx).collect()));
            res.push(("iter_rev(clone)", true, c.iter_rev().map(|f| f.idx).collect()));
            let mut c2 = c.clone();
            drop(c);
            res.push(("iter_rev(clone of clone)", true, c2.iter_rev().map(|f| f.idx).collect()));
            res.push(("fold(clone of clone)", false, c2.fold(Vec::new(), |mut s, f| {
                s.push(f.idx);
                s
            })));
        }
        let ins: Vec<usize> = g.iter_insertion().map(|f| f.idx).collect();
        let ins_mut: Vec<usize> = g.iter_insertion_mut().map(|f| f.idx).collect();
        let ins_idx: Vec<(usize, usize)> = g.iter_insertion_with_indices().map(|(i, f)| (i.index(), f.idx)).collect();
        let len = g.iter_insertion().len();
        (res, ins, ins_mut, ins_idx, len)
    }));
    let (res, ins, ins_mut, ins_idx, len) = match r {
        Ok(x) => x,
        Err(p) => {
            out.push(v("C14", "iteration-panicked", panic_msg(p)));
            return;
        }
    };
    for (name, rev, order) in &res {
        st.count(&format!("iterated.{name}"));
        if let Some(m) = order_violation(&built, order, *rev) {
            out.push(v("C14", "order", format!("{name}: {m}; order {order:?}")));
            return;
        }
    }
    let want: Vec<usize> = (0..n).collect();
    if ins != want || ins_mut != want || len != n || ins_idx != want.iter().map(|&i| (i, i)).collect::<Vec<_>>() {
        out.push(v("C14", "insertion-order", format!("iter_insertion {ins:?} / _mut {ins_mut:?} / _with_indices {ins_idx:?}")));
        return;
    }
    // failure at every position (a panic in here is reported, not allowed to take the worker down)
    let order: Vec<usize> = res.iter().find(|r| r.0 == "try_fold").unwrap().2.clone();
    let fail_loop = catch_unwind(AssertUnwindSafe(|| c14_failure_positions(&mut g, &built, &order, st)));
    match fail_loop {
        Err(p) => out.push(v("C14", "iteration-panicked", format!("after an earlier try_fold / try_for_each / map that stopped early: {}", panic_msg(p)))),
        Ok(Some(viol)) => out.push(viol),
        Ok(None) => {}
    }
}

fn c14_failure_positions(g: &mut FnGraph<TFn>, built: &Built, order: &[usize], st: &mut Stats) -> Option<Violation> {
    let n = built.n;
    let mut out: Vec<Violation> = Vec::new();
    // every position for ordinary graphs; for huge ones the first dozen, every (n/24)-th and the last
    let ks: Vec<usize> = if n <= 600 { (0..n).collect() } else { (0..n).filter(|&k| k < 12 || k % (n / 24) == 0 || k + 1 == n).collect() };
    for k in ks {
        let mut seen = Vec::new();
        let r = g.try_fold(0usize, |acc, f| {
            seen.push(f.idx);
            if seen.len() == k + 1 {
                Err(f.idx)
            } else {
                Ok(acc + 1)
            }
        });
        if r != Err(order[k]) || seen.len() != k + 1 || seen[..] != order[..k + 1] {
            out.push(v("C14", "try_fold-after-error", format!("failing the {k}-th visited function: returned {r:?}, visited {seen:?}, clean order {order:?}")));
            return out.pop();
        }
        let mut seen = Vec::new();
        let r = g.try_for_each(|f| {
            seen.push(f.idx);
            if seen.len() == k + 1 {
                Err(f.idx)
            } else {
                Ok(())
            }
        });
        if r != Err(order[k]) || seen.len() != k + 1 {
            out.push(v("C14", "try_for_each-after-error", format!("failing the {k}-th visited function: returned {r:?}, visited {seen:?}")));
            return out.pop();
        }
        st.count("failure_positions_checked");
        // a partially consumed map() iterator, dropped
        if k % 3 == 0 {
            let part: Vec<usize> = g.map(|f| f.idx).take(k).collect();
            if part[..] != order[..k] {
                out.push(v("C14", "order", format!("map() taken {k}: {part:?}, clean order {order:?}")));
                return out.pop();
            }
        }
    }
    // iterations that stopped early must not influence later ones
    let again = g.fold(Vec::new(), |mut s, f| {
        s.push(f.idx);
        s
    });
    if let Some(m) = order_violation(built, &again, false) {
        out.push(v("C14", "order-after-early-exit", format!("fold after earlier iterations that stopped early: {m}; order {again:?}")));
    }
    out.pop()
}

// ------------------------------------------------------------------------------------------ C16

#[derive(Clone, Debug)]
pub enum Op {
    AddFn,
    AddFns(usize),
    Edge(usize, usize, EK),
    Edges(EK, Vec<(usize, usize)>),
}

pub fn ops_encode(ops: &[Op]) -> String {
    ops.iter()
        .map(|o| match o {
            Op::AddFn => "f".to_string(),
            Op::AddFns(k) => format!("F{k}"),
            Op::Edge(a, b, k) => format!("{a}>{b}{}", if *k == EK::Logic { 'L' } else { 'C' }),
            Op::Edges(k, es) => format!(
                "{}[{}]",
                if *k == EK::Logic { 'L' } else { 'C' },
                es.iter().map(|(a, b)| format!("{a}>{b}")).collect::<Vec<_>>().join("+")
            ),
        })
        .collect::<Vec<_>>()
        .join(",")
}

pub fn ops_decode(s: &str) -> Result<Vec<Op>, String> {
    let mut out = Vec::new();
    for tok in s.split(',').filter(|t| !t.is_empty()) {
        if tok == "f" {
            out.push(Op::AddFn);
        } else if let Some(k) = tok.strip_prefix('F') {
            out.push(Op::AddFns(k.parse().map_err(|_| "bad F")?));
        } else if tok.ends_with(']') {
            let kind = if tok.starts_with('L') { EK::Logic } else { EK::Contains };
            let inner = &tok[2..tok.len() - 1];
            let mut es = Vec::new();
            for e in inner.split('+').filter(|e| !e.is_empty()) {
                let (a, b) = e.split_once('>').ok_or("bad edge")?;
                es.push((a.parse().map_err(|_| "bad a")?, b.parse().map_err(|_| "bad b")?));
            }
            out.push(Op::Edges(kind, es));
        } else {
            let (a, rest) = tok.split_once('>').ok_or("bad edge")?;
            let (b, k) = rest.split_at(rest.len() - 1);
            out.push(Op::Edge(a.parse().map_err(|_| "bad a")?, b.parse().map_err(|_| "bad b")?, if k == "L" { EK::Logic } else { EK::Contains }));
        }
    }
    Ok(out)
}

fn mk_fn(i: usize) -> TFn {
    TFn { idx: i, reads: 0, writes: 0, runs: 0 }
}

/// Applies the ops to the real builder and to the reference model side by side.
pub fn check_c16_ops(ops: &[Op], st: &mut Stats, out: &mut Vec<Violation>) {
    let r = catch_unwind(AssertUnwindSafe(|| {
        let mut b = FnGraphBuilder::<TFn>::new();
        let mut ids = Vec::new();
        // model
        let mut edges: Vec<(usize, usize, EK)> = Vec::new();
        let mut problems: Vec<Violation> = Vec::new();
        let model_add = |edges: &mut Vec<(usize, usize, EK)>, a: usize, bb: usize, k: EK, n: usize| -> bool {
            if let Some(e) = edges.iter_mut().find(|e| e.0 == a && e.1 == bb) {
                e.2 = k;
                return true;
            }
            // would b reach a?
            let mut seen = vec![false; n];
            let mut stack = vec![bb];
            let mut cyc = a == bb;
            while let Some(u) = stack.pop() {
                if u == a {
                    cyc = true;
                    break;
                }
                if std::mem::replace(&mut seen[u], true) {
                    continue;
                }
                for e in edges.iter() {
                    if e.0 == u {
                        stack.push(e.1);
                    }
                }
            }
            if cyc {
                false
            } else {
                edges.push((a, bb, k));
                true
            }
        };
        let mut counts = (0u64, 0u64);
        for (opi, op) in ops.iter().enumerate() {
            match op {
                Op::AddFn => {
                    let id = b.add_fn(mk_fn(ids.len()));
                    if id.index() != ids.len() {
                        problems.push(v("C16", "fn-id", format!("op {opi}: add_fn returned {}", id.index())));
                    }
                    ids.push(id);
                }
                Op::AddFns(k) => {
                    let base = ids.len();
                    let got: Vec<fn_graph::FnId> = match k {
                        0 => b.add_fns([]).to_vec(),
                        1 => b.add_fns([mk_fn(base)]).to_vec(),
                        2 => b.add_fns([mk_fn(base), mk_fn(base + 1)]).to_vec(),
                        3 => b.add_fns([mk_fn(base), mk_fn(base + 1), mk_fn(base + 2)]).to_vec(),
                        _ => b.add_fns([mk_fn(base), mk_fn(base + 1), mk_fn(base + 2), mk_fn(base + 3)]).to_vec(),
                    };
                    for (j, id) in got.iter().enumerate() {
                        if id.index() != base + j {
                            problems.push(v("C16", "fn-id", format!("op {opi}: add_fns returned {:?}", got)));
                        }
                        ids.push(*id);
                    }
                }
                Op::Edge(a, bb, k) => {
                    let r = match k {
                        EK::Logic => b.add_logic_edge(ids[*a], ids[*bb]),
                        EK::Contains => b.add_contains_edge(ids[*a], ids[*bb]),
                    };
                    let want = model_add(&mut edges, *a, *bb, *k, ids.len());
                    if want {
                        counts.0 += 1
                    } else {
                        counts.1 += 1
                    }
                    if r.is_ok() != want {
                        problems.push(v(
                            "C16",
                            if want { "edge-wrongly-rejected" } else { "cycle-closing-edge-accepted" },
                            format!("op {opi}: add edge {a}->{bb} returned {}, reference says {}", if r.is_ok() { "Ok" } else { "WouldCycle" }, if want { "accept" } else { "WouldCycle" }),
                        ));
                    }
                    // WouldCycle hands back the edge that was refused, i.e. the kind just given
                    if let Err(fn_graph::WouldCycle(kind_back)) = &r {
                        if tfn::bk(*kind_back) != BK::from(*k) {
                            problems.push(v("C16", "would-cycle-carries-wrong-kind", format!("op {opi}: the refused edge {a}->{bb} was given as {k:?}, WouldCycle carries {kind_back:?}")));
                        }
                    }
                }
                Op::Edges(k, es) => {
                    let pairs: Vec<(fn_graph::FnId, fn_graph::FnId)> = es.iter().map(|&(a, bb)| (ids[a], ids[bb])).collect();
                    macro_rules! call {
                        ($arr:expr) => {
                            match k {
                                EK::Logic => b.add_logic_edges($arr).map(|x| x.len()).map_err(|e| e.0),
                                EK::Contains => b.add_contains_edges($arr).map(|x| x.len()).map_err(|e| e.0),
                            }
                        };
                    }
                    let r = match pairs.len() {
                        0 => call!([]),
                        1 => call!([pairs[0]]),
                        2 => call!([pairs[0], pairs[1]]),
                        3 => call!([pairs[0], pairs[1], pairs[2]]),
                        _ => call!([pairs[0], pairs[1], pairs[2], pairs[3]]),
                    };
                    // model: apply until the first rejection
                    let mut want_ok = true;
                    for &(a, bb) in es.iter().take(4) {
                        if !model_add(&mut edges, a, bb, *k, ids.len()) {
                            want_ok = false;
                            counts.1 += 1;
                            break;
                        }
                        counts.0 += 1;
                    }
                    if let Err(kind_back) = &r {
                        if tfn::bk(*kind_back) != BK::from(*k) {
                            problems.push(v("C16", "would-cycle-carries-wrong-kind", format!("op {opi}: batch {es:?} was given as {k:?}, WouldCycle carries {kind_back:?}")));
                        }
                    }
                    if r.is_ok() != want_ok {
                        problems.push(v("C16", "batch-result", format!("op {opi}: batch {es:?} returned {}, reference says {}", if r.is_ok() { "Ok" } else { "WouldCycle" }, if want_ok { "Ok" } else { "WouldCycle" })));
                    }
                }
            }
        }
        let n = ids.len();
        if !problems.is_empty() {
            return (problems, counts);
        }
        let g = tfn::guarded(n, || b.build());
        let built = tfn::built_of(&g);
        let mut got: Vec<(usize, usize, BK)> = built.edges.iter().filter(|e| e.2 != BK::Data).copied().collect();
        let mut want: Vec<(usize, usize, BK)> = edges.iter().map(|&(a, bb, k)| (a, bb, BK::from(k))).collect();
        got.sort();
        want.sort();
        if got != want && problems.is_empty() {
            problems.push(v("C16", "edges-after-calls", format!("built graph has user edges {got:?}, reference {want:?}")));
        }
        if g.graph.node_count() != n {
            problems.push(v("C16", "node-count", format!("{} nodes after adding {n} functions", g.graph.node_count())));
        }
        (problems, counts)
    }));
    match r {
        Ok((p, counts)) => {
            st.add("edge_calls_accepted_by_reference", counts.0);
            st.add("edge_calls_rejected_by_reference", counts.1);
            out.extend(p.into_iter().take(1));
        }
        Err(p) => out.push(v("C16", "builder-panicked", panic_msg(p))),
    }
}

fn random_ops(rng: &mut Rng, max_nodes: usize, max_len: usize) -> Vec<Op> {
    let mut ops = Vec::new();
    let mut n = 0usize;
    let len = rng.range(1, max_len);
    while ops.len() < len {
        let want_node = n < 2 || (n < max_nodes && rng.chance(1, 5));
        if want_node {
            if rng.chance(1, 3) {
                let k = rng.range(0, 4.min(max_nodes - n));
                n += k;
                ops.push(Op::AddFns(k));
            } else {
                n += 1;
                ops.push(Op::AddFn);
            }
            continue;
        }
        let kind = if rng.chance(1, 2) { EK::Logic } else { EK::Contains };
        let pair = |rng: &mut Rng, ops: &Vec<Op>| -> (usize, usize) {
            // bias towards repeats / reversals of earlier edges and self edges
            let prev: Vec<(usize, usize)> = ops
                .iter()
                .flat_map(|o| match o {
                    Op::Edge(a, b, _) => vec![(*a, *b)],
                    Op::Edges(_, es) => es.clone(),
                    _ => vec![],
                })
                .collect();
            match rng.below(6) {
                0 if !prev.is_empty() => *rng.pick(&prev),
                1 if !prev.is_empty() => {
                    let p = *rng.pick(&prev);
                    (p.1, p.0)
                }
                2 => {
                    let a = rng.below(n);
                    (a, a)
                }
                _ => (rng.below(n), rng.below(n)),
            }
        };
        if rng.chance(1, 4) {
            let k = rng.range(0, 4);
            let es = (0..k).map(|_| pair(rng, &ops)).collect();
            ops.push(Op::Edges(kind, es));
        } else {
            let (a, b) = pair(rng, &ops);
            ops.push(Op::Edge(a, b, kind));
        }
    }
    ops
}

// ------------------------------------------------------------------------------------------ C17

#[cfg(feature = "b")]
pub fn check_c17(gs: &GraphSpec, st: &mut Stats, out: &mut Vec<Violation>) {
    use fn_graph::GraphInfo;
    let n = gs.n;
    let Ok((g, _)) = real_build(gs) else {
        st.count("skipped_build_panicked");
        return;
    };
    let built = tfn::built_of(&g);
    let r = catch_unwind(AssertUnwindSafe(|| {
        let gi: GraphInfo<usize> = GraphInfo::from_graph(&g, |f| f.idx * 7 + 1);
        let nodes: Vec<usize> = gi.graph.raw_nodes().iter().map(|n| n.weight).collect();
        let edges: Vec<(usize, usize, BK)> = gi.graph.raw_edges().iter().map(|e| (e.source().index(), e.target().index(), tfn::bk(e.weight))).collect();
        let it: Vec<usize> = gi.iter().copied().collect();
        let it_rev: Vec<usize> = gi.iter_rev().copied().collect();
        let ins: Vec<(usize, usize)> = gi.iter_insertion_with_indices().map(|(i, w)| (i.index(), *w)).collect();
        let yaml = serde_yaml_ng::to_string(&gi).map_err(|e| e.to_string());
        let json = serde_json::to_string(&gi).map_err(|e| e.to_string());
        let back_yaml = yaml.clone().and_then(|y| serde_yaml_ng::from_str::<GraphInfo<usize>>(&y).map_err(|e| e.to_string()));
        let back_json = json.clone().and_then(|y| serde_json::from_str::<GraphInfo<usize>>(&y).map_err(|e| e.to_string()));
        let yaml2 = back_yaml.as_ref().ok().map(|b| serde_yaml_ng::to_string(b).unwrap_or_default());
        let eq_yaml = back_yaml.as_ref().map(|b| *b == gi).map_err(|e| e.clone());
        let mut eq_json = back_json.as_ref().map(|b| *b == gi).map_err(|e| e.clone());
        // (one graph in six: seven more round trips each would dominate the run)
        let more = if crate::runner::hash_of(gs) % 6 == 0 { other_transports(&gi) } else { Vec::new() };
        for (what, back) in more {
            match back {
                Ok(b) if b == gi => {}
                Ok(_) => eq_json = Err(format!("{what}: came back different")),
                Err(e) => eq_json = Err(format!("{what}: {e}")),
            }
        }
        let back_edges: Option<Vec<(usize, usize, BK)>> = back_yaml.as_ref().ok().map(|b| b.graph.raw_edges().iter().map(|e| (e.source().index(), e.target().index(), tfn::bk(e.weight))).collect());
        let back_nodes: Option<Vec<usize>> = back_yaml.as_ref().ok().map(|b| b.graph.raw_nodes().iter().map(|n| n.weight).collect());
        (nodes, edges, it, it_rev, ins, yaml, yaml2, eq_yaml, eq_json, back_edges, back_nodes)
    }));
    let (nodes, edges, it, it_rev, ins, yaml, yaml2, eq_yaml, eq_json, back_edges, back_nodes) = match r {
        Ok(x) => x,
        Err(p) => {
            out.push(v("C17", "graph-info-panicked", panic_msg(p)));
            return;
        }
    };
    let want_nodes: Vec<usize> = (0..n).map(|i| i * 7 + 1).collect();
    if nodes != want_nodes {
        out.push(v("C17", "nodes", format!("GraphInfo nodes {nodes:?}, expected {want_nodes:?}")));
        return;
    }
    if ins != want_nodes.iter().enumerate().map(|(i, w)| (i, *w)).collect::<Vec<_>>() {
        out.push(v("C17", "insertion-iteration", format!("iter_insertion_with_indices {ins:?}")));
        return;
    }
    if edges != built.edges {
        out.push(v("C17", "edges", format!("GraphInfo edges {edges:?}, graph edges {:?}", built.edges)));
        return;
    }
    let unmap = |o: &Vec<usize>| -> Vec<usize> { o.iter().map(|w| (w.wrapping_sub(1)) / 7).collect() };
    if let Some(m) = order_violation(&built, &unmap(&it), false) {
        out.push(v("C17", "iter-order", format!("iter: {m}")));
        return;
    }
    if let Some(m) = order_violation(&built, &unmap(&it_rev), true) {
        out.push(v("C17", "iter_rev-order", format!("iter_rev: {m}")));
        return;
    }
    match (&eq_yaml, &eq_json) {
        (Ok(true), Ok(true)) => {}
        other => {
            out.push(v("C17", "round-trip", format!("serialise/deserialise does not give an equal value: yaml {:?}, json {:?}; yaml text: {:?}", other.0, other.1, yaml)));
            return;
        }
    }
    // equality must not be vacuous: compare the content read back ourselves
    if back_edges.as_ref() != Some(&built.edges) || back_nodes.as_ref() != Some(&want_nodes) {
        out.push(v("C17", "round-trip-content", format!("value read back has nodes {back_nodes:?} edges {back_edges:?}")));
        return;
    }
    if yaml2.as_deref() != yaml.as_ref().ok().map(|s| s.as_str()) {
        out.push(v("C17", "yaml-unstable", "YAML of the value read back differs from the YAML written".into()));
        return;
    }
    st.add("edges_round_tripped", edges.len() as u64);
    if edges.iter().any(|e| e.2 == BK::Data) {
        st.count("graphs_with_data_edges");
    }
    // GraphInfo is a value type of its own (`GraphInfo::new`, public `graph` field): values that
    // were NOT derived from an FnGraph must round-trip too - parallel edges between one pair of
    // nodes, edges of any kind anywhere, node values that need quoting in YAML / JSON.
    let r = catch_unwind(AssertUnwindSafe(|| -> Option<String> {
        use fn_graph::daggy::Dag;
        use fn_graph::{Edge, FnIdInner};
        let mut rng = Rng::new(hash_of(gs) ^ 0xC17);
        let names = ["plain", "with space", "colon: here", "quote\"d", "- dash", "#hash", "", "multi\nline", "true", "007", "{brace}", "ünïcode"];
        let mut dag: Dag<String, Edge, FnIdInner> = Dag::new();
        let k = n.min(12).max(if rng.chance(1, 4) { 0 } else { 1 });
        let ids: Vec<_> = (0..k).map(|i| dag.add_node(format!("{}{}", names[(i + rng.below(12)) % 12], if rng.chance(1, 2) { String::new() } else { i.to_string() }))).collect();
        let mut added = 0usize;
        if k >= 2 {
            for _ in 0..rng.below(2 * k + 1) {
                let a = rng.below(k - 1);
                let b = rng.range(a + 1, k - 1);
                let kind = *rng.pick(&[Edge::Logic, Edge::Contains, Edge::Data]);
                // add_edge (not update_edge): a repeated pair gives a parallel edge
                if dag.add_edge(ids[a], ids[b], kind).is_ok() {
                    added += 1;
                    if rng.chance(1, 3) && dag.add_edge(ids[a], ids[b], *rng.pick(&[Edge::Logic, Edge::Contains, Edge::Data])).is_ok() {
                        added += 1;
                    }
                }
            }
        }
        // a value that was pruned after it was assembled (public `graph` field): removing an edge
        // or a node re-links petgraph's adjacency lists, which a deserialised copy rebuilds in
        // index order
        if added >= 2 && rng.chance(1, 3) {
            let e = fn_graph::daggy::EdgeIndex::new(rng.below(added));
            if dag.remove_edge(e).is_some() {
                added -= 1;
            }
        }
        if k >= 3 && rng.chance(1, 6) {
            let victim = ids[rng.below(k)];
            let gone = dag.graph().edges_directed(victim, fn_graph::daggy::petgraph::Direction::Outgoing).count()
                + dag.graph().edges_directed(victim, fn_graph::daggy::petgraph::Direction::Incoming).count();
            if dag.remove_node(victim).is_some() {
                added -= gone;
            }
        }
        let gi = GraphInfo::new(dag);
        let content = |x: &GraphInfo<String>| -> (Vec<String>, Vec<(usize, usize, BK)>) {
            (x.graph.raw_nodes().iter().map(|n| n.weight.clone()).collect(), x.graph.raw_edges().iter().map(|e| (e.source().index(), e.target().index(), tfn::bk(e.weight))).collect())
        };
        let want = content(&gi);
        if want.1.len() != added {
            return Some(format!("harness: built {} edges, GraphInfo holds {}", added, want.1.len()));
        }
        let yaml = match serde_yaml_ng::to_string(&gi) {
            Ok(y) => y,
            Err(e) => return Some(format!("hand-built GraphInfo does not serialise to YAML: {e}")),
        };
        let json = match serde_json::to_string(&gi) {
            Ok(y) => y,
            Err(e) => return Some(format!("hand-built GraphInfo does not serialise to JSON: {e}")),
        };
        for (what, back) in [("yaml", serde_yaml_ng::from_str::<GraphInfo<String>>(&yaml).map_err(|e| e.to_string())), ("json", serde_json::from_str::<GraphInfo<String>>(&json).map_err(|e| e.to_string()))] {
            match back {
                Err(e) => return Some(format!("hand-built GraphInfo ({} nodes, {} edges) does not deserialise from its own {what}: {e}; text {:?}", want.0.len(), want.1.len(), if what == "yaml" { &yaml } else { &json })),
                Ok(b) => {
                    if b != gi || content(&b) != want {
                        return Some(format!("hand-built GraphInfo changed in a {what} round trip: nodes {:?} edges {:?} came back as nodes {:?} edges {:?}", want.0, want.1, content(&b).0, content(&b).1));
                    }
                }
            }
        }
        for (what, back) in other_transports(&gi) {
            match back {
                Err(e) => return Some(format!("hand-built GraphInfo ({} nodes, {} edges) does not deserialise through {what}: {e}", want.0.len(), want.1.len())),
                Ok(b) => {
                    if b != gi || content(&b) != want {
                        return Some(format!("hand-built GraphInfo changed in a round trip through {what}: nodes {:?} edges {:?} came back as nodes {:?} edges {:?}", want.0, want.1, content(&b).0, content(&b).1));
                    }
                }
            }
        }
        None
    }));
    match r {
        Err(p) => out.push(v("C17", "graph-info-panicked", format!("hand-built GraphInfo: {}", panic_msg(p)))),
        Ok(Some(m)) if m.starts_with("harness:") => st.inconclusive.push(m),
        Ok(Some(m)) => out.push(v("C17", "round-trip-hand-built", m)),
        Ok(None) => st.count("hand_built_graph_infos_round_tripped"),
    }
}

/// Deserialisation paths other than `from_str`: deserialisers that own their input (readers,
/// `Value` trees) cannot lend `&str`s, and byte slices go through yet another entry point. A value must
/// come back equal through each of them.
#[cfg(feature = "b")]
fn other_transports<T>(gi: &T) -> Vec<(&'static str, Result<T, String>)>
where
    T: serde::Serialize + serde::de::DeserializeOwned,
{
    let mut v: Vec<(&'static str, Result<T, String>)> = Vec::new();
    let es = |e: &dyn std::fmt::Display| e.to_string();
    v.push(("yaml to_string/from_reader", serde_yaml_ng::to_string(gi).map_err(|e| es(&e)).and_then(|y| serde_yaml_ng::from_reader::<_, T>(std::io::Cursor::new(y.into_bytes())).map_err(|e| es(&e)))));
    v.push(("yaml to_string/from_slice", serde_yaml_ng::to_string(gi).map_err(|e| es(&e)).and_then(|y| serde_yaml_ng::from_slice::<T>(y.as_bytes()).map_err(|e| es(&e)))));
    v.push(("yaml to_value/from_value", serde_yaml_ng::to_value(gi).map_err(|e| es(&e)).and_then(|y| serde_yaml_ng::from_value::<T>(y).map_err(|e| es(&e)))));
    v.push(("json to_vec/from_reader", serde_json::to_vec(gi).map_err(|e| es(&e)).and_then(|y| serde_json::from_reader::<_, T>(std::io::Cursor::new(y)).map_err(|e| es(&e)))));
    v.push(("json to_vec/from_slice", serde_json::to_vec(gi).map_err(|e| es(&e)).and_then(|y| serde_json::from_slice::<T>(&y).map_err(|e| es(&e)))));
    v.push(("json to_value/from_value", serde_json::to_value(gi).map_err(|e| es(&e)).and_then(|y| serde_json::from_value::<T>(y).map_err(|e| es(&e)))));
    v.push(("json pretty/from_str", serde_json::to_string_pretty(gi).map_err(|e| es(&e)).and_then(|y| serde_json::from_str::<T>(&y).map_err(|e| es(&e)))));
    v
}

// ------------------------------------------------------------------------------------------ C18

/// Returns the number of pops, or Err(message) if the budget tripped / build panicked.
pub fn check_c18(gs: &GraphSpec, st: &mut Stats, out: &mut Vec<Violation>) {
    use fn_graph::verif_hooks as vh;
    let n = gs.n as u64;
    let budget = n * n + n;
    vh::rank_calc_pops_reset();
    vh::set_rank_calc_pop_budget(Some(budget));
    ACCESS_QUERIES.with(|c| c.set(0));
    let t0 = Instant::now();
    let r = real_build(gs);
    let el = t0.elapsed();
    vh::set_rank_calc_pop_budget(None);
    let pops = vh::rank_calc_pops();
    let queries = ACCESS_QUERIES.with(|c| c.get());
    st.max("max_rank_calc_pops", pops);
    st.max("max_access_queries", queries);
    st.max("max_build_micros", el.as_micros() as u64);
    st.max("max_functions", n);
    let ug = UserGraph::from_spec(gs);
    st.max("max_root_paths_in_a_graph", ug.path_count());
    match r {
        Err(m) if m.contains("rank_calc pop budget exceeded") => {
            out.push(v(
                "C18",
                "rank-calc-superpolynomial",
                format!("RankCalc performed more than n^2+n = {budget} queue pops for n = {n} functions, {} edges, {} root paths (stopped by the budget hook)", ug.edges.len(), ug.path_count()),
            ));
        }
        Err(_) => {
            st.count("skipped_build_panicked");
        }
        Ok(_) => {
            if n > 0 && pops < n {
                st.inconclusive.push(format!("rank-calc hook counted {pops} pops for {n} functions: hook not reached"));
            }
            // hook-free counter: the augmenter asks each pair at most once, 4 queries per pair
            if queries > 4 * n * n + 4 {
                out.push(v("C18", "augmenter-work", format!("{queries} access-declaration queries for n = {n} (> 4 n^2)")));
            }
        }
    }
}

fn c18_graph(rng: &mut Rng, max_n: usize) -> GraphSpec {
    // families whose path count explodes
    let kind = rng.below(5);
    let mut perm: Vec<usize>;
    let mut edges: Vec<(usize, usize)> = Vec::new();
    let n;
    match kind {
        0 | 1 => {
            // layered w x d, complete bipartite between consecutive layers
            let w = rng.range(2, 8);
            let d = rng.range(2, (max_n / w).max(2));
            n = w * d;
            perm = (0..n).collect();
            rng.shuffle(&mut perm);
            for l in 0..d - 1 {
                for a in 0..w {
                    for b in 0..w {
                        edges.push((perm[l * w + a], perm[(l + 1) * w + b]));
                    }
                }
            }
        }
        2 => {
            // complete DAG
            n = rng.range(2, max_n.min(60));
            perm = (0..n).collect();
            rng.shuffle(&mut perm);
            for i in 0..n {
                for j in i + 1..n {
                    edges.push((perm[i], perm[j]));
                }
            }
        }
        3 => {
            // diamond chain
            let k = rng.range(1, (max_n / 3).max(1));
            n = 3 * k + 1;
            perm = (0..n).collect();
            rng.shuffle(&mut perm);
            for i in 0..k {
                let b = 3 * i;
                edges.push((perm[b], perm[b + 1]));
                edges.push((perm[b], perm[b + 2]));
                edges.push((perm[b + 1], perm[b + 3]));
                edges.push((perm[b + 2], perm[b + 3]));
            }
        }
        _ => {
            // random dense
            n = rng.range(2, max_n);
            perm = (0..n).collect();
            rng.shuffle(&mut perm);
            let p = rng.range(30, 90) as u64;
            for i in 0..n {
                for j in i + 1..n {
                    if rng.chance(p, 100) {
                        edges.push((perm[i], perm[j]));
                    }
                }
            }
        }
    }
    rng.shuffle(&mut edges);
    let calls = edges.iter().map(|&(a, b)| (a as u32, b as u32, if rng.chance(1, 4) { EK::Contains } else { EK::Logic })).collect();
    let mut p = GraphProfile::sched(n);
    p.types = 2;
    p.max_access = 1;
    let (reads, writes) = gen::random_access(rng, n, &p);
    GraphSpec { n, calls, reads, writes }
}

// ---- C18 second monitor: growth of the CPU time of build() along graph families ----
//
// The pop counter only sees RankCalc. Work done elsewhere in build() (augmenter, counts, structure
// copies) has no hook, and a hook could not anticipate where a regression puts its loop. What is
// observable without hooks is how the cost grows along a family whose size grows by ~15-20 % per
// step: polynomial work of degree k grows by at most 1.2^k per step (k = 6: 2.99), path
// enumeration grows by the branching factor per layer (>= 4 per two layers). The measure is
// *thread CPU time* (CLOCK_THREAD_CPUTIME_ID), not wall-clock, min of 3 repetitions, and the
// schedule stops as soon as one build costs more than 60 ms, so an exponential regression is
// detected after a few milliseconds of work instead of being waited for.

#[repr(C)]
struct Timespec {
    tv_sec: i64,
    tv_nsec: i64,
}
extern "C" {
    fn clock_gettime(clk_id: i32, tp: *mut Timespec) -> i32;
}
pub fn thread_cpu_ns() -> u64 {
    let mut ts = Timespec { tv_sec: 0, tv_nsec: 0 };
    // CLOCK_THREAD_CPUTIME_ID = 3 on Linux
    let rc = unsafe { clock_gettime(3, &mut ts) };
    if rc != 0 {
        return 0;
    }
    ts.tv_sec as u64 * 1_000_000_000 + ts.tv_nsec as u64
}

/// One member of a growth family: `size` is the family parameter (number of layers etc.).
pub fn growth_family(fam: usize, size: usize, rng: &mut Rng) -> GraphSpec {
    let mut edges: Vec<(usize, usize)> = Vec::new();
    let n;
    let mut reads: Vec<crate::model::Mask>;
    let mut writes: Vec<crate::model::Mask>;
    match fam {
        // 0,1,2: layered w x size, complete bipartite between layers; accesses: none / all write one type / ends conflict
        0 | 1 | 2 | 3 => {
            let w = if fam == 3 { 2 } else { 3 };
            n = w * size;
            for l in 0..size - 1 {
                for a in 0..w {
                    for b in 0..w {
                        edges.push((l * w + a, (l + 1) * w + b));
                    }
                }
            }
            reads = vec![0; n];
            writes = vec![0; n];
            match fam {
                1 => writes.iter_mut().for_each(|x| *x = 1),
                2 | 3 => {
                    writes[0] = 1;
                    writes[n - 1] = 1;
                    reads[n / 2] = 1;
                }
                _ => {}
            }
        }
        // 4: two pipelines: layered 3 x size plus an independent chain of size+1, first of A and last of B conflict
        4 => {
            let w = 3;
            let na = w * size;
            let nb = size + 1;
            n = na + nb;
            for l in 0..size - 1 {
                for a in 0..w {
                    for b in 0..w {
                        edges.push((l * w + a, (l + 1) * w + b));
                    }
                }
            }
            for i in 0..nb - 1 {
                edges.push((na + i, na + i + 1));
            }
            reads = vec![0; n];
            writes = vec![0; n];
            writes[0] = 1;
            writes[n - 1] = 1;
        }
        // 5: diamond chain with every join writing
        5 => {
            n = 3 * size + 1;
            for i in 0..size {
                let b = 3 * i;
                edges.push((b, b + 1));
                edges.push((b, b + 2));
                edges.push((b + 1, b + 3));
                edges.push((b + 2, b + 3));
            }
            reads = vec![0; n];
            writes = vec![0; n];
            for i in 0..=size {
                writes[3 * i] = 1;
            }
            reads[1] = 1;
        }
        // 6: isolated functions, all writers of one type (augmenter chains them; quadratic pair scan)
        6 => {
            n = 4 * size;
            reads = vec![0; n];
            writes = vec![1; n];
        }
        // 7: complete DAG, alternate readers / writers
        _ => {
            n = 2 * size;
            for i in 0..n {
                for j in i + 1..n {
                    edges.push((i, j));
                }
            }
            reads = (0..n).map(|i| (i % 2) as crate::model::Mask).collect();
            writes = (0..n).map(|i| ((i + 1) % 2) as crate::model::Mask).collect();
        }
    }
    // random relabelling so that insertion order is not topological order
    let mut perm: Vec<usize> = (0..n).collect();
    rng.shuffle(&mut perm);
    let mut calls: Vec<(u32, u32, EK)> = edges.iter().map(|&(a, b)| (perm[a] as u32, perm[b] as u32, EK::Logic)).collect();
    rng.shuffle(&mut calls);
    let mut r2: Vec<crate::model::Mask> = vec![0; n];
    let mut w2: Vec<crate::model::Mask> = vec![0; n];
    for i in 0..n {
        r2[perm[i]] = reads[i];
        w2[perm[i]] = writes[i];
    }
    GraphSpec { n, calls, reads: r2, writes: w2 }
}

pub const GROWTH_FAMILIES: usize = 8;
const GROWTH_RATIO: f64 = 3.0;
const GROWTH_MIN_NS: u64 = 40_000;
const GROWTH_STOP_NS: u64 = 60_000_000;

/// Measures build() CPU time along one family. Returns the (n, ns) series.
pub fn growth_series(fam: usize, seed: u64, max_size: usize) -> Result<Vec<(usize, u64)>, String> {
    let mut series = Vec::new();
    let mut size = 6;
    // the hook budget must not interfere here
    fn_graph::verif_hooks::set_rank_calc_pop_budget(None);
    while size <= max_size {
        let mut best = u64::MAX;
        let mut n = 0;
        for rep in 0..3 {
            let mut rng = Rng::new(mix(seed, (fam * 1000 + size) as u64));
            let gs = growth_family(fam, size, &mut rng);
            n = gs.n;
            let (b, _) = tfn::builder_from_spec(&gs);
            let t0 = thread_cpu_ns();
            let r = catch_unwind(AssertUnwindSafe(move || b.build()));
            let dt = thread_cpu_ns().saturating_sub(t0);
            if r.is_err() {
                return Err(format!("build panicked for family {fam} size {size}"));
            }
            best = best.min(dt);
            if dt > GROWTH_STOP_NS && rep == 0 {
                break;
            }
        }
        series.push((n, best));
        if best > GROWTH_STOP_NS {
            break;
        }
        size += 2;
    }
    Ok(series)
}

/// Three consecutive steps each multiplying the cost by >= GROWTH_RATIO (only counting points above
/// the noise floor) - or two consecutive steps each multiplying it by at least twice that threshold:
/// a change that multiplies the cost by 20 per step reaches the 60 ms stop after two measurable
/// steps, so it never produces a third one.
pub fn superpolynomial(series: &[(usize, u64)]) -> Option<usize> {
    let mut run = 0;
    let mut strong_run = 0;
    for i in 1..series.len() {
        let (a, b) = (series[i - 1].1, series[i].1);
        // a step counts when the cost grew by more than ANY polynomial of degree <= 6 could over
        // the same growth in n (and by at least GROWTH_RATIO), above the measurement noise floor
        let poly6 = (series[i].0 as f64 / series[i - 1].0.max(1) as f64).powi(6);
        let thr = GROWTH_RATIO.max(poly6);
        if a >= GROWTH_MIN_NS / 4 && b >= GROWTH_MIN_NS && (b as f64) >= thr * (a as f64) {
            run += 1;
            if (b as f64) >= 2.0 * thr * (a as f64) {
                strong_run += 1;
            } else {
                strong_run = 0;
            }
            if run >= 3 || strong_run >= 2 {
                return Some(i);
            }
        } else {
            run = 0;
            strong_run = 0;
        }
    }
    None
}

// ------------------------------------------------------------------------------------------ driver

pub const BUILD_RULE: &str = "case = one sequence of builder calls (functions with access declarations + edge calls incl. rejected ones); \
phase 1 enumerates every labelled DAG up to exhaustive.max_n nodes x access assignments; phase 2 draws seeded random graphs from 13 families (n up to max_functions). \
The monitor evaluates an independent reference model next to the real build() output. distinct = distinct graph specs; non-trivial = >= 2 functions and (>= 1 accepted edge or >= 1 conflicting pair)";

fn nontrivial(gs: &GraphSpec) -> bool {
    gs.n >= 2 && (!gs.calls.is_empty() || (0..gs.n).any(|a| (a + 1..gs.n).any(|b| gs.conflict(a, b))))
}

fn run_graph_check(prop: &'static str, check: GraphCheck, gs: &GraphSpec, st: &mut Stats) {
    st.evaluations += 1;
    if nontrivial(gs) {
        st.distinct_insert(hash_of(gs));
    }
    let mut out = Vec::new();
    check(gs, st, &mut out);
    for vv in out.iter().take(1) {
        st.violation(vv, format!("g={}", gs.encode()), String::new());
    }
    let _ = prop;
}

pub fn run(opts: &Opts) -> Option<(Stats, Vec<String>, String)> {
    let q = opts.tier == Tier::Quick;
    let prop: &'static str = match opts.prop.as_str() {
        "C11" => "C11",
        "C12" => "C12",
        "C13" => "C13",
        "C14" => "C14",
        "C16" => "C16",
        "C17" => "C17",
        "C18" => "C18",
        _ => return None,
    };
    let deadline = Instant::now() + opts.time_cap;
    let seed = opts.seed;
    let mut total = Stats::default();
    if prop == "C16" {
        // exhaustive: all sequences of edge calls over 3 nodes (9 pairs incl. self x 2 kinds = 18 calls), length <= L
        let len = if q { 3 } else { 4 };
        let calls: Vec<(usize, usize, EK)> = (0..3).flat_map(|a| (0..3).flat_map(move |b| [EK::Logic, EK::Contains].into_iter().map(move |k| (a, b, k)))).collect();
        let total_seq: u64 = (0..=len).map(|l| (calls.len() as u64).pow(l as u32)).sum();
        let calls_ref = &calls;
        let exh = par_for(opts.jobs, total_seq, 512, Some(deadline), |st, mut i, _slot| {
            // decode i into a sequence (mixed radix by length)
            let mut l = 0;
            let mut block = 1u64;
            while i >= block {
                i -= block;
                l += 1;
                block = (calls_ref.len() as u64).pow(l as u32);
            }
            let mut ops = vec![Op::AddFns(3)];
            for _ in 0..l {
                let c = calls_ref[(i % calls_ref.len() as u64) as usize];
                i /= calls_ref.len() as u64;
                ops.push(Op::Edge(c.0, c.1, c.2));
            }
            st.evaluations += 1;
            st.exhaustive_cases += 1;
            if l >= 2 {
                st.distinct_insert(hash_of(&ops_encode(&ops)));
            }
            let mut out = Vec::new();
            check_c16_ops(&ops, st, &mut out);
            for vv in out.iter().take(1) {
                st.violation(vv, format!("ops={}", ops_encode(&ops)), String::new());
            }
        });
        let complete = exh.exhaustive_cases == total_seq;
        total.merge(exh);
        total.add("exhaustive.sequences", total_seq);
        total.add("exhaustive.complete", complete as u64);
        total.add("exhaustive.max_len", len as u64);
        let cases = ((if q { 500_000 } else { 5_000_000 }) as f64 * opts.scale) as u64;
        let rnd = par_for(opts.jobs, cases, 256, Some(deadline), |st, i, _slot| {
            let mut rng = Rng::new(mix(seed, i));
            let ops = random_ops(&mut rng, 6, 14);
            st.evaluations += 1;
            st.distinct_insert(hash_of(&ops_encode(&ops)));
            if ops.iter().any(|o| matches!(o, Op::Edges(..))) {
                st.count("sequences_with_batch_edge_calls");
            }
            let mut out = Vec::new();
            check_c16_ops(&ops, st, &mut out);
            for vv in out.iter().take(1) {
                st.violation(vv, format!("ops={}", ops_encode(&ops)), String::new());
            }
            if st.samples.len() < 3 && i % 1013 == 0 {
                st.samples.push(J::obj(vec![("builder_calls", J::s(ops_encode(&ops)))]));
            }
        });
        total.merge(rnd);
        let mut floors = Vec::new();
        let c = |k: &str| total.counters.get(k).copied().unwrap_or(0);
        if c("edge_calls_rejected_by_reference") == 0 || c("edge_calls_accepted_by_reference") == 0 {
            floors.push("both accepted and rejected edge calls must be observed".to_string());
        }
        let rule = "case = sequence of add_fn / add_fns / add_*_edge / add_*_edges calls; phase 1 enumerates EVERY sequence of single-edge calls over 3 functions (18 distinct calls incl. self edges and both kinds) up to exhaustive.max_len; phase 2 random sequences over <= 6 functions, length <= 14, biased to repeats, reversals, self edges, batches of 0..4. distinct = distinct sequences; non-trivial = >= 2 edge calls".to_string();
        return Some((total, floors, rule));
    }

    let check: GraphCheck = match prop {
        "C11" => check_c11,
        "C12" => check_c12,
        "C13" => check_c13,
        "C14" => check_c14,
        #[cfg(feature = "b")]
        "C17" => check_c17,
        "C18" => check_c18,
        _ => return None,
    };

    if prop == "C18" {
        // second monitor: CPU-time growth along families (hook-free; covers work outside RankCalc)
        let max_size = if q { 40 } else { 70 };
        let reps: u64 = if q { 2 } else { 6 };
        let gr = par_for(opts.jobs.min(GROWTH_FAMILIES), GROWTH_FAMILIES as u64 * reps, 1, Some(deadline), |st, i, slot| {
            let fam = (i as usize) % GROWTH_FAMILIES;
            {
                let mut w = slot.what.lock().unwrap();
                w.clear();
                w.push_str(&format!("growth family {fam}"));
            }
            match growth_series(fam, mix(seed, i), max_size) {
                Err(m) => st.inconclusive.push(m),
                Ok(series) => {
                    st.evaluations += series.len() as u64;
                    st.count("growth.series_measured");
                    st.add("growth.points_measured", series.len() as u64);
                    st.max("growth.max_functions_measured", series.last().map(|x| x.0).unwrap_or(0) as u64);
                    st.max("growth.max_build_cpu_micros", series.iter().map(|x| x.1).max().unwrap_or(0) / 1000);
                    let worst = series.windows(2).filter(|w| w[1].1 >= GROWTH_MIN_NS && w[0].1 > 0).map(|w| w[1].1 as f64 / w[0].1 as f64).fold(0.0, f64::max);
                    st.max("growth.max_step_ratio_x100", (worst * 100.0) as u64);
                    if let Some(at) = superpolynomial(&series) {
                        let v = Violation {
                            prop: "C18",
                            kind: "build-cpu-time-grows-geometrically",
                            detail: format!(
                                "family {fam}: on three consecutive +2-layer steps (or on two, by twice as much) the CPU time of build() multiplies by >= {GROWTH_RATIO} and by more than (n2/n1)^6, i.e. faster than any polynomial of degree <= 6: (functions, microseconds) = {:?}",
                                series[..=at].iter().map(|x| (x.0, x.1 / 1000)).collect::<Vec<_>>()
                            ),
                        };
                        st.violation(&v, format!("growth_family={fam}|seed={}", mix(seed, i)), String::new());
                    }
                    if st.samples.len() < 2 {
                        st.samples.push(J::obj(vec![("growth_family", J::u(fam as u64)), ("functions_and_cpu_micros", J::s(format!("{:?}", series.iter().map(|x| (x.0, x.1 / 1000)).collect::<Vec<_>>())))]));
                    }
                }
            }
        });
        total.merge(gr);
        if total.violation_count > 0 {
            // build() cost explodes: the random phase below would only run into the watchdog
            let rule = "growth monitor reported a violation; the random phase was skipped".to_string();
            return Some((total, Vec::new(), rule));
        }
        let max_n = if q { 40 } else { 160 };
        let cases = ((if q { 20_000 } else { 12_000 }) as f64 * opts.scale) as u64;
        // fixed hostile members first: layered 4x6 .. and K_n
        let rnd = par_for(opts.jobs, cases, 16, Some(deadline), |st, i, slot| {
            let mut rng = Rng::new(mix(seed, i));
            let gs = c18_graph(&mut rng, max_n);
            {
                let mut w = slot.what.lock().unwrap();
                w.clear();
                w.push_str(&format!("g={}", if gs.n <= 40 { gs.encode() } else { format!("(n={} seed={} idx={})", gs.n, seed, i) }));
            }
            st.evaluations += 1;
            st.distinct_insert(hash_of(&gs));
            let mut out = Vec::new();
            check_c18(&gs, st, &mut out);
            for vv in out.iter().take(1) {
                st.violation(vv, format!("g={}", gs.encode()), String::new());
            }
            if st.samples.len() < 2 && i % 211 == 0 && gs.n <= 24 {
                st.samples.push(J::obj(vec![("graph", J::s(gs.encode())), ("rank_calc_pops", J::u(fn_graph::verif_hooks::rank_calc_pops())), ("budget", J::u((gs.n * gs.n + gs.n) as u64))]));
            }
        });
        total.merge(rnd);
        let mut floors = Vec::new();
        if total.counters.get("growth.series_measured").copied().unwrap_or(0) < GROWTH_FAMILIES as u64 {
            floors.push("growth monitor did not measure every family".to_string());
        }
        if total.maxes.get("max_rank_calc_pops").copied().unwrap_or(0) == 0 {
            floors.push("hook never counted a pop".to_string());
        }
        if total.maxes.get("max_root_paths_in_a_graph").copied().unwrap_or(0) < 1_000_000 {
            floors.push("no graph with >= 10^6 root paths was generated (workload not hostile enough)".to_string());
        }
        let rule = "case = one build() of a DAG from families whose number of root-to-node paths is exponential (layered w x d complete bipartite, complete DAG, diamond chains, dense random) under shuffled insertion orders; monitor = queue-pop counter hook in RankCalc::calc with an online budget of n^2+n, plus a hook-free count of access-declaration queries (<= 4n^2), plus a hook-free growth monitor: thread CPU time of build() along 8 graph families growing by +2 layers per step must not grow by >= 3x and faster than (n2/n1)^6 on three consecutive steps (or by twice that on two); distinct = distinct graph specs, all non-trivial (n >= 2)".to_string();
        return Some((total, floors, rule));
    }

    // C11 C12 C13 C14 C17: exhaustive small + random larger
    let max_exh_n = match (prop, q) {
        ("C13", true) => 5,
        ("C13", false) => 6,
        (_, true) => 4,
        (_, false) => 5,
    };
    let access_exh = prop != "C13";
    let mut specs: Vec<(usize, Vec<(u32, u32, EK)>)> = Vec::new();
    for n in 0..=max_exh_n.min(5) {
        for edges in DagEnum::new(n) {
            specs.push((n, edges.iter().map(|&(a, b)| (a as u32, b as u32, EK::Logic)).collect()));
        }
    }
    let nspecs = specs.len() as u64;
    let specs_ref = &specs;
    let exh = par_for(opts.jobs, nspecs, 8, Some(deadline), |st, i, _slot| {
        let (n, calls) = &specs_ref[i as usize];
        let n = *n;
        st.exhaustive_cases += 1;
        if access_exh {
            // all {none,R,W}^n over one type; two types for n <= 3
            let two = n <= 3 && n > 0;
            // n = 5: 243 assignments x 29281 DAGs is too many for the quick tier; sample 27 of them
            let total = gen::access_count(n, two);
            let step = if n >= 5 { 9 } else { 1 };
            let mut a = (i as usize) % step;
            while a < total {
                let (reads, writes) = gen::access_assignment(n, two, a);
                let mut gs = GraphSpec { n, calls: calls.clone(), reads, writes };
                // vary edge kinds and insertion order deterministically
                let mut rng = Rng::new(mix(i, a as u64));
                rng.shuffle(&mut gs.calls);
                for c in gs.calls.iter_mut() {
                    if rng.chance(1, 3) {
                        c.2 = EK::Contains;
                    }
                }
                run_graph_check(prop, check, &gs, st);
                a += step;
            }
            if step > 1 {
                st.count("exhaustive.access_assignments_sampled_for_n5");
            }
        } else {
            let gs = GraphSpec { n, calls: calls.clone(), reads: vec![0; n], writes: vec![0; n] };
            run_graph_check(prop, check, &gs, st);
        }
    });
    let mut complete = exh.exhaustive_cases == nspecs;
    total.merge(exh);
    if prop == "C13" && max_exh_n >= 6 {
        // n = 6: 3.78 M labelled DAGs, streamed (not stored)
        let nshards = 729u64; // 3^6: fix the first 6 pair digits per shard
        let six = par_for(opts.jobs, nshards, 1, Some(deadline), |st, shard, _slot| {
            let mut e = DagEnum6::new(shard);
            while let Some(edges) = e.next() {
                let gs = GraphSpec { n: 6, calls: edges.iter().map(|&(a, b)| (a as u32, b as u32, EK::Logic)).collect(), reads: vec![0; 6], writes: vec![0; 6] };
                run_graph_check(prop, check, &gs, st);
                st.count("exhaustive.dags_n6");
            }
            st.exhaustive_cases += 1;
        });
        complete &= six.exhaustive_cases == nshards && !six.counters.contains_key("stopped_by_time_cap");
        total.merge(six);
    }
    total.add("exhaustive.dags", nspecs);
    total.add("exhaustive.complete", complete as u64);
    total.add("exhaustive.max_n", max_exh_n as u64);

    let (cases, max_n) = match (prop, q) {
        ("C12", true) => (120_000u64, 28),
        ("C12", false) => (1_000_000, 40),
        (_, true) => (250_000, 32),
        (_, false) => (2_000_000, 40),
    };
    let cases = (cases as f64 * opts.scale) as u64;
    let rnd = par_for(opts.jobs, cases, 64, Some(deadline), |st, i, _slot| {
        let mut rng = Rng::new(mix(seed, i));
        let mut p = GraphProfile::sched(max_n);
        p.types = rng.range(1, 6);
        p.max_access = 3;
        p.write_pct = *rng.pick(&[20, 50, 80]);
        p.path_cap = 200_000;
        let mut fam = *rng.pick(&gen::FAMILIES);
        let mut n = if rng.chance(1, 3) { rng.range(0, 8) } else { rng.range(0, max_n) };
        if i % 4000 == 77 {
            // a few hundred functions: chains (rank > 255), isolated writers, sparse graphs
            fam = *rng.pick(&[Family::Chain, Family::Isolated, Family::SparseEr, Family::OutTree, Family::FanIn]);
            n = rng.range(260, 420);
            p.hostile_calls = false;
            p.types = 2;
            p.max_access = 1;
            st.count("graphs_with_hundreds_of_functions");
        }
        let huge_per_run: u64 = if prop == "C12" { if q { 1 } else { 3 } } else if q { 2 } else { 6 };
        if cases >= 64 && i % (cases / huge_per_run).max(1) == 57 % (cases / huge_per_run).max(1) {
            // beyond the next power of two (4096): buffers, batches and search
            // cut-offs sized by a round constant. build() is cubic in the number of conflicting
            // functions, so only a handful of functions declare accesses.
            // shallow shapes only: on a deep one (a chain) build() itself needs minutes, it asks
            // has_path_connecting for every pair before it looks at the declarations
            fam = [Family::FanOut, Family::Isolated, Family::FanIn][((i / (cases / huge_per_run).max(1)) % 3) as usize];
            // (the reference model is cubic as well: 8000+ functions would run into the per-case watchdog on a loaded machine)
            n = rng.range(4100, 4600);
            p.hostile_calls = false;
            p.types = 0;
            let mut gs = gen::random_graph_of(&mut rng, fam, n, &p);
            let ends: Vec<usize> = match (gs.calls.first(), gs.calls.last()) {
                (Some(a), Some(b)) => vec![a.0 as usize, a.1 as usize, b.0 as usize, b.1 as usize],
                _ => vec![0, gs.n - 1],
            };
            // every other time ONLY the endpoints of the last declared edge conflict (no other
            // data edge can make one of them reachable by a detour)
            let only_last = (fam == Family::FanOut || rng.chance(1, 3)) && !gs.calls.is_empty();
            if only_last {
                gs.writes[ends[2]] |= 1;
                gs.writes[ends[3]] |= 1;
            }
            for k in 0..(if only_last { 0 } else { 10 }) {
                // the endpoints of the first and of the last declared edge among them, so that
                // conflicts span the whole declaration order
                let f = if k < ends.len() { ends[k] } else { rng.below(gs.n) };
                if rng.chance(2, 3) {
                    gs.writes[f] |= 1;
                } else {
                    gs.reads[f] |= 1;
                }
            }
            st.count("huge_graphs");
            st.max("max_functions", gs.n as u64);
            if std::env::var("FGV_HUGE_DEBUG").is_ok() {
                eprintln!("HUGE-BUILD fam={fam:?} n={} calls={} only_last={only_last} last={:?} w_last=({},{})", gs.n, gs.calls.len(), gs.calls.last(), gs.calls.last().map(|c| gs.writes[c.0 as usize]).unwrap_or(0), gs.calls.last().map(|c| gs.writes[c.1 as usize]).unwrap_or(0));
            }
            run_graph_check(prop, check, &gs, st);
            return;
        }
        if i % 500 == 33 {
            // more distinct data types in one graph than fit in a 64-bit mask
            fam = *rng.pick(&[Family::SparseEr, Family::Isolated, Family::Chain, Family::Layered]);
            n = rng.range(40, 90);
            p.hostile_calls = false;
            p.types = rng.range(70, 128);
            p.max_access = 4;
            st.count("graphs_with_more_than_64_data_types_on_offer");
        }
        let gs = gen::random_graph_of(&mut rng, fam, n, &p);
        {
            let mut all: crate::model::Mask = 0;
            for i in 0..gs.n {
                all |= gs.reads[i] | gs.writes[i];
            }
            st.max("max_distinct_data_types_in_a_graph", all.count_ones() as u64);
        }
        st.max("max_functions", gs.n as u64);
        st.count(&format!("family.{fam:?}"));
        run_graph_check(prop, check, &gs, st);
        if st.samples.len() < 3 && i % 499 == 0 && gs.n >= 3 && gs.n <= 8 {
            let ug = UserGraph::from_spec(&gs);
            st.samples.push(J::obj(vec![
                ("graph", J::s(gs.encode())),
                ("accepted_user_edges", J::s(format!("{:?}", ug.edges))),
                ("reference_ranks", J::s(format!("{:?}", ug.ranks()))),
                ("reference_data_edges", J::s(format!("{:?}", expected_data_edges(&gs, &ug)))),
            ]));
        }
    });
    total.merge(rnd);
    let mut floors = Vec::new();
    let c = |k: &str| total.counters.get(k).copied().unwrap_or(0);
    match prop {
        "C11" => {
            if c("conflicting_pairs_checked") == 0 || c("data_edges_seen") == 0 {
                floors.push("no conflicting pair / no data edge observed".into());
            }
        }
        "C12" => {
            if c("pairs_ordered_by_rank_rule") == 0 || c("data_edges_compared") == 0 {
                floors.push("rank rule never exercised".into());
            }
            for m in ["function", "edge-kind", "edge-endpoint"] {
                if c(&format!("mutations_compared.{m}")) == 0 {
                    floors.push(format!("no {m} mutation compared"));
                }
            }
        }
        "C13" => {
            if c("graphs_with_rank_ge_2") == 0 {
                floors.push("no graph with a chain of length >= 2".into());
            }
        }
        "C14" => {
            if c("graphs_with_data_edges") == 0 || c("failure_positions_checked") == 0 {
                floors.push("no graph with data edges / no failure position checked".into());
            }
        }
        "C17" => {
            if c("graphs_with_data_edges") == 0 || c("edges_round_tripped") == 0 {
                floors.push("no data edge round-tripped".into());
            }
        }
        _ => {}
    }
    Some((total, floors, BUILD_RULE.to_string()))
}

/// Labelled DAGs on 6 nodes whose first six pair digits are fixed by `shard` (0..729).
pub struct DagEnum6 {
    pairs: Vec<(usize, usize)>,
    digits: Vec<u8>,
    done: bool,
}

impl DagEnum6 {
    pub fn new(shard: u64) -> DagEnum6 {
        let mut pairs = Vec::new();
        for i in 0..6 {
            for j in i + 1..6 {
                pairs.push((i, j));
            }
        }
        let mut digits = vec![0u8; pairs.len()];
        let mut s = shard;
        for d in digits.iter_mut().take(6) {
            *d = (s % 3) as u8;
            s /= 3;
        }
        DagEnum6 { pairs, digits, done: false }
    }
    fn current(&self) -> Vec<(usize, usize)> {
        self.pairs
            .iter()
            .zip(&self.digits)
            .filter_map(|(&(i, j), &d)| match d {
                1 => Some((i, j)),
                2 => Some((j, i)),
                _ => None,
            })
            .collect()
    }
    pub fn next(&mut self) -> Option<Vec<(usize, usize)>> {
        while !self.done {
            let e = self.current();
            // advance digits 6..15
            let mut carried = true;
            for d in self.digits.iter_mut().skip(6) {
                if *d < 2 {
                    *d += 1;
                    carried = false;
                    break;
                }
                *d = 0;
            }
            if carried {
                self.done = true;
            }
            if is_acyclic6(&e) {
                return Some(e);
            }
        }
        None
    }
}

fn is_acyclic6(edges: &[(usize, usize)]) -> bool {
    let mut indeg = [0u8; 6];
    for &(_, b) in edges {
        indeg[b] += 1;
    }
    let mut removed = [false; 6];
    let mut left = 6;
    loop {
        let mut progress = false;
        for u in 0..6 {
            if !removed[u] && indeg[u] == 0 {
                removed[u] = true;
                left -= 1;
                progress = true;
                for &(a, b) in edges {
                    if a == u {
                        indeg[b] -= 1;
                    }
                }
            }
        }
        if left == 0 {
            return true;
        }
        if !progress {
            return false;
        }
    }
}

#[allow(dead_code)]
fn _unused(_: Family, _: &Slot) {}

pub fn replay(prop: &str, parts: &[(String, String)]) -> i32 {
    let mut st = Stats::default();
    let mut out = Vec::new();
    if prop == "C16" {
        let Some(ops) = parts.iter().find(|p| p.0 == "ops") else {
            println!("replay: no ops");
            return 2;
        };
        match ops_decode(&ops.1) {
            Ok(ops) => check_c16_ops(&ops, &mut st, &mut out),
            Err(e) => {
                println!("replay: {e}");
                return 2;
            }
        }
    } else {
        let Some(g) = parts.iter().find(|p| p.0 == "g") else {
            println!("replay: no graph");
            return 2;
        };
        let gs = match GraphSpec::decode(&g.1) {
            Ok(g) => g,
            Err(e) => {
                println!("replay: {e}");
                return 2;
            }
        };
        match prop {
            "C11" => check_c11(&gs, &mut st, &mut out),
            "C12" => check_c12(&gs, &mut st, &mut out),
            "C13" => check_c13(&gs, &mut st, &mut out),
            "C14" => check_c14(&gs, &mut st, &mut out),
            #[cfg(feature = "b")]
            "C17" => check_c17(&gs, &mut st, &mut out),
            "C18" => check_c18(&gs, &mut st, &mut out),
            _ => {
                println!("replay: {prop} not available in this configuration");
                return 2;
            }
        }
        let ug = UserGraph::from_spec(&gs);
        println!("graph: {}", gs.encode());
        println!("reference: accepted user edges {:?}, ranks {:?}", ug.edges, ug.ranks());
    }
    for v in &out {
        println!("violated: {} {}: {}", v.prop, v.kind, v.detail);
    }
    if !st.inconclusive.is_empty() {
        println!("replay: inconclusive: {:?}", st.inconclusive);
        return 2;
    }
    if out.is_empty() {
        println!("replay: property held on this case");
        0
    } else {
        1
    }
}
