//! Executing one (graph, run spec, tape) case under the director.

use fn_graph::FnGraph;

use crate::apis::{sig_channel, start_call, start_stream, GraphRef, RunResult};
use crate::choice::Tape;
use crate::director::{CallDriver, Ev, RunState, StreamDriver, Term};
use crate::spec::RunSpec;
use crate::tfn::TFn;

#[derive(Clone, Debug)]
pub struct Trace {
    pub term: Term,
    pub result: Option<RunResult>,
    pub log: Vec<Ev>,
    pub quiescent: usize,
    pub polls: usize,
    /// `runs` field of every function after a `_mut` run (reset to 0 before it).
    pub runs_after: Option<Vec<u32>>,
}

impl Trace {
    /// Hash of the behaviour (events + result), for trace-equality (C15) and distinct counting.
    pub fn behaviour_hash(&self) -> u64 {
        use std::hash::{Hash, Hasher};
        let mut h = std::collections::hash_map::DefaultHasher::new();
        self.log.hash(&mut h);
        self.result.hash(&mut h);
        format!("{:?}", self.term).hash(&mut h);
        self.runs_after.hash(&mut h);
        h.finish()
    }
}

/// Runs one case on an existing graph value.
pub fn run_case(g: &mut FnGraph<TFn>, rs: &RunSpec, tape: &mut Tape) -> Trace {
    let n = g.graph.node_count();
    let (tx, rx) = sig_channel(rs);
    let sh = RunState::new(n, rs, tx);
    if rs.api.is_stream() {
        let (term, polls, idle) = {
            // `stream*()` does its set-up eagerly: a panic there must not take the worker down.
            let stream = match std::panic::catch_unwind(std::panic::AssertUnwindSafe(|| start_stream(rs, &*g, rx))) {
                Ok(s) => s,
                Err(p) => {
                    let log = vec![Ev::Panic];
                    return Trace { term: Term::Panicked(format!("creating the stream: {}", crate::director::panic_msg(p))), result: None, log, quiescent: 0, polls: 0, runs_after: None };
                }
            };
            let mut d = StreamDriver::new(stream, sh.clone(), rs, tape);
            d.run(tape);
            (d.term.clone().unwrap(), d.polls, d.idle_points)
        };
        let log = std::mem::take(&mut sh.borrow_mut().log);
        Trace { term, result: None, log, quiescent: idle, polls, runs_after: None }
    } else {
        let is_mut = rs.api.is_mut();
        if is_mut {
            for f in g.iter_insertion_mut() {
                f.runs = 0;
            }
        }
        let (term, result, q, polls) = {
            let gr = if is_mut { GraphRef::Mut(&mut *g) } else { GraphRef::Shared(&*g) };
            let fut = start_call(rs, gr, &sh, rx);
            let mut d = CallDriver::new(fut, sh.clone(), rs, n, tape);
            d.run(tape);
            (d.term.clone().unwrap(), d.result.take(), d.quiescent_points, d.polls)
        };
        let runs_after = is_mut.then(|| g.iter_insertion().map(|f| f.runs).collect());
        let log = std::mem::take(&mut sh.borrow_mut().log);
        Trace { term, result, log, quiescent: q, polls, runs_after }
    }
}

pub fn ev_str(e: &Ev) -> String {
    match e {
        Ev::Poll => "P".into(),
        Ev::Spurious => "P!".into(),
        Ev::Pending { woken: true } => "pend(woken)".into(),
        Ev::Pending { woken: false } => "pend".into(),
        Ev::Ready => "READY".into(),
        Ev::Panic => "PANIC".into(),
        Ev::Start(f) => format!("S{f}"),
        Ev::End(f, true) => format!("E{f}"),
        Ev::End(f, false) => format!("E{f}!err"),
        Ev::Cancelled(f) => format!("X{f}"),
        Ev::Release(f) => format!("rel{f}"),
        Ev::Signal => "SIGNAL".into(),
        Ev::Quiescent => "Q".into(),
        Ev::RootDrop => "DROP".into(),
        Ev::Yield(f) => format!("Y{f}"),
        Ev::YieldIntr(f) => format!("YI{f}"),
        Ev::IntrNone => "INone".into(),
        Ev::RefDrop(f, w) => format!("D{f}{}", if *w { "(w)" } else { "" }),
        Ev::StreamNone => "NONE".into(),
    }
}

pub fn log_str(log: &[Ev], max: usize) -> String {
    let mut s: Vec<String> = log.iter().take(max).map(ev_str).collect();
    if log.len() > max {
        s.push(format!("…(+{})", log.len() - max));
    }
    s.join(" ")
}
