//! Offline oracles over the director's event log and the values the API returned.
//!
//! Every oracle is a deterministic function of (graph spec + reference model, built edges, run
//! spec, trace). Conflicts and dependencies come from the spec the harness generated, never from
//! the library. Each oracle belongs to exactly the properties whose statement contains it.

use crate::director::{Ev, Term};
use crate::exec::Trace;
use crate::model::{BitMat, Built, GraphSpec, UserGraph, BK};
use crate::spec::{Api, Intr, RunSpec, SignalPlan};

#[derive(Clone, Debug)]
pub struct Violation {
    pub prop: &'static str,
    pub kind: &'static str,
    pub detail: String,
}

pub struct Ctx<'a> {
    pub gs: &'a GraphSpec,
    pub ug: &'a UserGraph,
    pub built: &'a Built,
    pub rs: &'a RunSpec,
}

fn hand(e: &Ev) -> Option<usize> {
    match e {
        Ev::Start(f) | Ev::Yield(f) | Ev::YieldIntr(f) => Some(*f as usize),
        _ => None,
    }
}

/// The function "returned" (user future resolved / FnRef dropped).
fn returned(e: &Ev) -> Option<usize> {
    match e {
        Ev::End(f, _) | Ev::RefDrop(f, _) => Some(*f as usize),
        _ => None,
    }
}

/// No longer in flight (returned, or its future was dropped).
fn gone(e: &Ev) -> Option<usize> {
    match e {
        Ev::End(f, _) | Ev::RefDrop(f, _) | Ev::Cancelled(f) => Some(*f as usize),
        _ => None,
    }
}

fn v(prop: &'static str, kind: &'static str, detail: String) -> Violation {
    Violation { prop, kind, detail }
}

/// A signal was sent and the strategy reacts to it.
pub fn interrupted_effectively(rs: &RunSpec, t: &Trace) -> bool {
    matches!(rs.intr, Intr::FinishCurrent | Intr::PollNextN(_)) && t.log.iter().any(|e| *e == Ev::Signal)
}

pub fn any_failed(t: &Trace) -> bool {
    t.log.iter().any(|e| matches!(e, Ev::End(_, false)))
}

pub fn root_dropped(t: &Trace) -> bool {
    t.log.iter().any(|e| *e == Ev::RootDrop)
}

/// C01: conflicting functions are never in flight together.
pub fn o_conflict(c: &Ctx, t: &Trace, out: &mut Vec<Violation>) {
    let api = c.rs.api;
    if !(api.is_stream() || api.is_concurrent_call()) {
        return;
    }
    let mut inflight: Vec<usize> = Vec::new();
    for (pos, e) in t.log.iter().enumerate() {
        if let Some(x) = hand(e) {
            for &u in &inflight {
                if c.gs.conflict(u, x) {
                    out.push(v(
                        "C01",
                        "conflicting-in-flight",
                        format!("function {x} handed out at event {pos} while conflicting function {u} is in flight"),
                    ));
                    return;
                }
            }
            inflight.push(x);
        } else if let Some(x) = gone(e) {
            if let Some(i) = inflight.iter().position(|&u| u == x) {
                inflight.swap_remove(i);
            }
        }
    }
}

/// C02: nothing is handed out before its (direct, hence by induction all) dependencies returned.
pub fn o_dep(c: &Ctx, t: &Trace, out: &mut Vec<Violation>) {
    let n = c.gs.n;
    let mut ret = vec![false; n];
    let deps = if c.rs.reverse { &c.ug.succ } else { &c.ug.pred };
    for (pos, e) in t.log.iter().enumerate() {
        if let Some(x) = hand(e) {
            for &u in &deps[x] {
                if !ret[u] {
                    out.push(v(
                        "C02",
                        "started-before-dependency-returned",
                        format!(
                            "function {x} handed out at event {pos} before function {u} ({}) returned",
                            if c.rs.reverse { "which depends on it; reverse order" } else { "which it depends on" }
                        ),
                    ));
                    return;
                }
            }
        } else if let Some(x) = returned(e) {
            ret[x] = true;
        }
    }
}

/// Whether the run is one in which every function must have been handed out.
pub fn clean_complete(c: &Ctx, t: &Trace) -> bool {
    if t.term != Term::Returned || root_dropped(t) || any_failed(t) || interrupted_effectively(c.rs, t) {
        return false;
    }
    if c.rs.api.is_stream() {
        return t.log.iter().any(|e| *e == Ev::StreamNone);
    }
    true
}

/// C03: at most once; exactly once in a clean run.
pub fn o_once(c: &Ctx, t: &Trace, out: &mut Vec<Violation>) {
    let n = c.gs.n;
    let mut cnt = vec![0u32; n];
    for (pos, e) in t.log.iter().enumerate() {
        if let Some(x) = hand(e) {
            cnt[x] += 1;
            if cnt[x] > 1 {
                out.push(v("C03", "handed-out-twice", format!("function {x} handed out a second time at event {pos}")));
                return;
            }
        }
    }
    if let Some(runs) = &t.runs_after {
        for f in 0..n {
            if runs[f] != cnt[f] {
                out.push(v(
                    "C03",
                    "mut-run-count-mismatch",
                    format!("function {f}: closure observed {} hand-outs, function value was mutated {} times", cnt[f], runs[f]),
                ));
                return;
            }
        }
    }
    if clean_complete(c, t) {
        if let Some(f) = (0..n).find(|&f| cnt[f] == 0) {
            out.push(v(
                "C03",
                "not-handed-out-in-clean-run",
                format!("run returned without interruption or failure but function {f} was never handed out"),
            ));
        }
    }
}

/// C04: the call returns; no deadlock, lost wake-up, livelock or panic; nothing in flight at return.
pub fn o_term(c: &Ctx, t: &Trace, out: &mut Vec<Violation>) {
    if c.rs.api.is_stream() {
        return;
    }
    match &t.term {
        Term::Returned | Term::Dropped => {}
        Term::Deadlock => out.push(v(
            "C04",
            "deadlock",
            "future pending, no wake-up signalled, every started user future completed".into(),
        )),
        Term::LostWake(f) => out.push(v(
            "C04",
            "lost-wakeup",
            format!("user future of function {f} completed (its waker invoked) but the call's waker was not signalled"),
        )),
        Term::Panicked(m) => out.push(v("C04", "panic", format!("poll panicked: {m}"))),
        Term::Livelock => out.push(v("C04", "livelock", "future keeps waking itself without progress".into())),
        Term::Stalled => {}
    }
    in_flight_at_return("C04", t, out);
}

fn in_flight_at_return(prop: &'static str, t: &Trace, out: &mut Vec<Violation>) {
    let mut inflight: Vec<usize> = Vec::new();
    let mut root_dropped = false;
    for e in &t.log {
        if *e == Ev::RootDrop {
            root_dropped = true;
        }
        if *e == Ev::Panic {
            // after a panic the director tears the call down itself; the panic is reported elsewhere
            return;
        }
        if let (Ev::Cancelled(f), false) = (e, root_dropped) {
            // the CALLER has not dropped the call, so it is the library that dropped a user future
            // it had started without driving it to completion
            out.push(v(prop, "user-future-dropped-unfinished", format!("the user future of function {f} was started and then dropped by the call before it completed (the caller had not dropped the call)")));
            return;
        }
        if let Some(x) = hand(e) {
            inflight.push(x);
        } else if let Some(x) = gone(e) {
            if let Some(i) = inflight.iter().position(|&u| u == x) {
                inflight.swap_remove(i);
            }
        } else if *e == Ev::Ready {
            if let Some(&f) = inflight.first() {
                out.push(v(prop, "returned-with-user-future-unfinished", format!("call returned while the user future of function {f} had not completed")));
            }
            return;
        }
    }
}

/// Idle-point check shared by C05 and C06 for streams: returns a function that could be yielded
/// (all built predecessors dropped) although the stream is pending without a wake-up.
fn stream_idle_scan(c: &Ctx, t: &Trace, check_end: bool) -> Option<(usize, &'static str, String)> {
    let n = c.gs.n;
    let preds = c.built.preds(c.rs.reverse);
    let sig_eff_possible = matches!(c.rs.intr, Intr::FinishCurrent | Intr::PollNextN(_));
    let mut yielded = vec![false; n];
    let mut dropped = vec![false; n];
    let mut yields = 0usize;
    let (mut idle, mut flag, mut ended, mut sdrop, mut sig) = (false, false, false, false, false);
    let mut intr_item_seen = false;
    let releasable = |yielded: &Vec<bool>, dropped: &Vec<bool>| -> Option<usize> {
        (0..n).find(|&x| !yielded[x] && preds[x].iter().all(|&p| dropped[p]))
    };
    for (pos, e) in t.log.iter().enumerate() {
        let mut check = false;
        match e {
            Ev::Poll | Ev::Spurious => {
                idle = false;
                flag = false;
            }
            Ev::Pending { woken } => {
                idle = true;
                flag = *woken;
                if check_end && yields == n && !sig {
                    return Some((pos, "pending-after-all-yielded", format!("all {n} functions were yielded but the next poll returned Pending instead of None")));
                }
                check = true;
            }
            Ev::Yield(f) | Ev::YieldIntr(f) => {
                yielded[*f as usize] = true;
                yields += 1;
                if matches!(e, Ev::YieldIntr(_)) {
                    intr_item_seen = true;
                }
            }
            Ev::IntrNone => intr_item_seen = true,
            Ev::RefDrop(f, fl) => {
                dropped[*f as usize] = true;
                flag = *fl;
                check = true;
            }
            Ev::Signal => sig = sig_eff_possible,
            Ev::StreamNone => {
                ended = true;
                // An interrupted stream ends early, but only right after its Interrupted item: None
                // with functions left and no Interrupted item seen is an early end whether or not
                // a signal was sent (the consumer cannot tell it from completion).
                if check_end && yields < n && !intr_item_seen {
                    return Some((
                        pos,
                        "none-before-all-yielded",
                        format!("stream returned None after {yields} of {n} functions{}", if sig { " (a signal had been sent, but no Interrupted item was yielded)" } else { "" }),
                    ));
                }
            }
            Ev::RootDrop => sdrop = true,
            Ev::Panic => {
                if check_end {
                    return Some((pos, "panic", "panic while polling / dropping".into()));
                }
            }
            _ => {}
        }
        if check && idle && !flag && !ended && !sdrop && !sig {
            if let Some(x) = releasable(&yielded, &dropped) {
                return Some((
                    pos,
                    "stall",
                    format!("after event {pos}: stream pending, no wake-up signalled, but function {x} has no undropped predecessor"),
                ));
            }
        }
    }
    None
}

/// C05: the stream never stalls and ends exactly after the last yield.
pub fn o_stream(c: &Ctx, t: &Trace, out: &mut Vec<Violation>) {
    if !c.rs.api.is_stream() {
        return;
    }
    if let Some((_, kind, d)) = stream_idle_scan(c, t, true) {
        out.push(v("C05", kind, d));
        return;
    }
    if let Term::Panicked(m) = &t.term {
        out.push(v("C05", "panic", m.clone()));
    } else if t.term == Term::Stalled && !interrupted_effectively(c.rs, t) {
        out.push(v("C05", "stall", "consumer cannot act: stream pending, no wake-up signalled, no FnRef held, stream not ended".into()));
    }
}

/// C06: idle ⇒ every function whose built predecessors all returned has been started.
pub fn o_eager(c: &Ctx, t: &Trace, out: &mut Vec<Violation>) {
    let api = c.rs.api;
    if !(api.is_stream() || api.is_concurrent_call()) {
        return;
    }
    if !matches!(c.rs.limit, None | Some(0)) || !c.rs.fail.is_empty() {
        return;
    }
    if matches!(c.rs.intr, Intr::FinishCurrent | Intr::PollNextN(_)) && c.rs.signal != SignalPlan::Never {
        return;
    }
    if api.is_stream() {
        if let Some((_, kind, d)) = stream_idle_scan(c, t, false) {
            if kind == "stall" {
                out.push(v("C06", "idle-with-releasable-function", d));
            }
        }
        return;
    }
    let n = c.gs.n;
    let preds = c.built.preds(c.rs.reverse);
    let mut started = vec![false; n];
    let mut ended = vec![false; n];
    for (pos, e) in t.log.iter().enumerate() {
        match e {
            Ev::Start(f) => started[*f as usize] = true,
            Ev::End(f, _) => ended[*f as usize] = true,
            Ev::Quiescent => {
                if let Some(x) = (0..n).find(|&x| !started[x] && preds[x].iter().all(|&p| ended[p])) {
                    out.push(v(
                        "C06",
                        "idle-with-releasable-function",
                        format!("quiescent at event {pos} (pending, no wake-up outstanding) but function {x}, whose built-graph predecessors have all returned, was not started"),
                    ));
                    return;
                }
            }
            _ => {}
        }
    }
}

/// C06 static part: every built edge the user did not add joins two conflicting functions.
pub fn o_extra_edges(gs: &GraphSpec, ug: &UserGraph, built: &Built, out: &mut Vec<Violation>) {
    for &(a, b, k) in &built.edges {
        let user = ug.edges.iter().any(|&(x, y, _)| x == a && y == b);
        if !user && !gs.conflict(a, b) {
            out.push(v(
                "C06",
                "edge-between-independent-functions",
                format!("built graph has edge {a}->{b} ({k:?}) which the user did not add and whose endpoints do not conflict"),
            ));
            return;
        }
    }
}

fn built_reach_dir(c: &Ctx) -> BitMat {
    let r = c.built.reach();
    if !c.rs.reverse {
        return r;
    }
    let n = c.built.n;
    let mut t = BitMat::new(n);
    for i in 0..n {
        for j in r.row_iter(i).collect::<Vec<_>>() {
            t.set(j, i);
        }
    }
    t
}

/// C07: failures.
pub fn o_fail(c: &Ctx, t: &Trace, out: &mut Vec<Violation>) {
    let api = c.rs.api;
    if !api.is_try() {
        return;
    }
    let failed: Vec<usize> = t.log.iter().filter_map(|e| if let Ev::End(f, false) = e { Some(*f as usize) } else { None }).collect();
    if failed.is_empty() {
        // nothing failed in this execution: only "no phantom errors"
        if t.term == Term::Returned {
            if let Some(r) = &t.result {
                if r.errors.as_ref().map_or(false, |e| !e.is_empty()) {
                    out.push(v("C07", "phantom-error", format!("no function failed but errors {:?} were returned", r.errors)));
                }
            }
        }
        return;
    }
    if root_dropped(t) {
        return;
    }
    match &t.term {
        Term::Deadlock | Term::Livelock | Term::LostWake(_) => {
            out.push(v("C07", "no-return-after-failure", format!("function(s) {failed:?} failed and the call never returned ({:?})", t.term)));
            return;
        }
        Term::Panicked(m) => {
            out.push(v("C07", "panic-after-failure", format!("function(s) {failed:?} failed and the call panicked: {m}")));
            return;
        }
        _ => {}
    }
    if api.is_fold() {
        let f0 = failed[0];
        let pos0 = t.log.iter().position(|e| *e == Ev::End(f0 as u32, false)).unwrap();
        if let Some(p) = t.log[pos0..].iter().position(|e| matches!(e, Ev::Start(_))) {
            out.push(v("C07", "invoked-after-first-error", format!("function {f0} failed at event {pos0} and another function was invoked at event {}", pos0 + p)));
            return;
        }
        if let Some(r) = &t.result {
            if r.errors.as_deref() != Some(&[f0 as u32][..]) {
                out.push(v("C07", "wrong-error-returned", format!("first failure was function {f0}, call returned errors {:?} outcome {:?}", r.errors, r.outcome.is_some())));
            }
        }
        return;
    }
    // try_for_each_concurrent family
    if let Some(r) = &t.result {
        let mut got: Vec<u32> = r.errors.clone().unwrap_or_default();
        let mut want: Vec<u32> = failed.iter().map(|&f| f as u32).collect();
        got.sort_unstable();
        want.sort_unstable();
        if r.errors.is_none() {
            out.push(v("C07", "ok-despite-failure", format!("functions {want:?} failed but the call returned Ok/Continue")));
            return;
        }
        if got != want {
            out.push(v("C07", "errors-lost-or-duplicated", format!("failed functions {want:?}, returned errors {got:?}")));
            return;
        }
        if let Some(true) = r.control_continue {
            out.push(v("C07", "continue-despite-failure", "control variant returned Continue although a function broke".into()));
            return;
        }
    }
    let reach = built_reach_dir(c);
    for &f in &failed {
        for e in &t.log {
            if let Ev::Start(x) = e {
                if reach.get(f, *x as usize) {
                    out.push(v("C07", "dependent-of-failed-started", format!("function {x} is ordered after failed function {f} in the built graph but was started")));
                    return;
                }
            }
        }
    }
    in_flight_at_return("C07", t, out);
}

/// Upper bound on hand-outs after the signal, from `interruptible 0.2.4` as wired by fn_graph.
pub fn intr_bound(rs: &RunSpec, before_first_poll: bool) -> Option<usize> {
    let include = rs.include || rs.api.is_stream();
    match rs.intr {
        Intr::None | Intr::Ignore => None,
        Intr::FinishCurrent | Intr::PollNextN(0) => Some(if before_first_poll || !include { 0 } else { 1 }),
        Intr::PollNextN(k) => Some(k as usize),
    }
}

/// C08: interruption.
pub fn o_intr(c: &Ctx, t: &Trace, out: &mut Vec<Violation>) {
    let rs = c.rs;
    if rs.intr == Intr::None {
        return;
    }
    let n = c.gs.n;
    let sig_pos = t.log.iter().position(|e| *e == Ev::Signal);
    if rs.intr == Intr::Ignore {
        // a signal never changes which functions run
        if t.term == Term::Returned && !any_failed(t) && !root_dropped(t) {
            let started = t.log.iter().filter(|e| hand(e).is_some()).count();
            let complete = if rs.api.is_stream() { t.log.iter().any(|e| *e == Ev::StreamNone) } else { true };
            if complete && started != n {
                out.push(v("C08", "ignored-signal-changed-run", format!("IgnoreInterruptions: {started} of {n} functions ran (signal sent: {})", sig_pos.is_some())));
            }
            if let Some(o) = t.result.as_ref().and_then(|r| r.outcome.as_ref()) {
                if o.state != 2 {
                    out.push(v("C08", "ignored-signal-changed-outcome", format!("IgnoreInterruptions: outcome state {} instead of Finished", o.state)));
                }
            }
        } else if matches!(t.term, Term::Deadlock | Term::Livelock | Term::LostWake(_)) && !any_failed(t) {
            out.push(v("C08", "no-return", format!("IgnoreInterruptions: call did not return ({:?})", t.term)));
        }
        return;
    }
    let Some(sig_pos) = sig_pos else { return };
    let before_first_poll = !t.log[..sig_pos].iter().any(|e| matches!(e, Ev::Poll | Ev::Spurious));
    let bound = intr_bound(rs, before_first_poll).unwrap();
    // A signal sent from inside a user future of a *concurrent* call can arrive while functions
    // that were dequeued before it have not had their closure invoked yet (FuturesUnordered may
    // yield before first-polling a freshly pushed future). "Started" provably equals "handed
    // out" only at quiescent points, so for that injection mode the bound is asserted on the
    // hand-outs after the first quiescent point that follows the signal.
    // The same holds for a signal that the director sent between two polls while the call was
    // not quiescent (the last poll returned Pending with a wake-up already outstanding).
    let last_pending_woken = t.log[..sig_pos].iter().rev().find_map(|e| if let Ev::Pending { woken } = e { Some(*woken) } else { None }).unwrap_or(false);
    let inside_concurrent = rs.api.is_concurrent_call()
        && !before_first_poll
        && (matches!(rs.signal, SignalPlan::AtStart(_) | SignalPlan::AtEnd(_)) || last_pending_woken);
    let count_from = if inside_concurrent {
        match t.log[sig_pos..].iter().position(|e| *e == Ev::Quiescent) {
            Some(q) => sig_pos + q,
            None => t.log.len(),
        }
    } else {
        sig_pos
    };
    let after = t.log[count_from..].iter().filter(|e| hand(e).is_some()).count();
    if after > bound {
        out.push(v(
            "C08",
            "too-many-started-after-signal",
            format!("{:?} include={} signal at event {sig_pos}{}: {after} functions handed out afterwards, bound {bound}", rs.intr, rs.include, if before_first_poll { " (before the call)" } else { "" }),
        ));
        return;
    }
    if rs.api.is_stream() {
        // the stream ends right after the Interrupted item
        let mut seen_intr = false;
        for (pos, e) in t.log.iter().enumerate() {
            match e {
                Ev::YieldIntr(_) | Ev::IntrNone => {
                    if seen_intr {
                        out.push(v("C08", "item-after-interrupted", format!("second Interrupted item at event {pos}")));
                        return;
                    }
                    seen_intr = true
                }
                Ev::Yield(_) | Ev::Pending { .. } if seen_intr => {
                    out.push(v("C08", "stream-continues-after-interrupted", format!("event {pos} after the Interrupted item is not None")));
                    return;
                }
                _ => {}
            }
        }
        return;
    }
    if root_dropped(t) {
        return;
    }
    match &t.term {
        Term::Returned => {}
        other => {
            if !any_failed(t) {
                out.push(v("C08", "no-return-after-interrupt", format!("call did not return after the interrupt: {other:?}")));
            }
            return;
        }
    }
    in_flight_at_return("C08", t, out);
    if let Some(o) = t.result.as_ref().and_then(|r| r.outcome.as_ref()) {
        for e in &t.log {
            if let Ev::Start(f) = e {
                if !o.processed.contains(f) {
                    out.push(v("C08", "started-not-reported-processed", format!("function {f} was started but is missing from fn_ids_processed {:?}", o.processed)));
                    return;
                }
            }
        }
    }
}

/// C09: the outcome tells the truth.
pub fn o_outcome(c: &Ctx, t: &Trace, out: &mut Vec<Violation>) {
    if c.rs.api.is_stream() || t.term != Term::Returned {
        return;
    }
    let Some(r) = &t.result else { return };
    let n = c.gs.n;
    let starts: Vec<u32> = t.log.iter().filter_map(|e| if let Ev::Start(f) = e { Some(*f) } else { None }).collect();
    if let Some(o) = &r.outcome {
        if o.processed != starts {
            out.push(v("C09", "processed-mismatch", format!("fn_ids_processed {:?} != start order {:?}", o.processed, starts)));
            return;
        }
        let rest: Vec<u32> = (0..n as u32).filter(|f| !starts.contains(f)).collect();
        if o.not_processed != rest {
            out.push(v("C09", "not-processed-mismatch", format!("fn_ids_not_processed {:?} != remaining ids in insertion order {:?}", o.not_processed, rest)));
            return;
        }
        let want_state = if rest.is_empty() { 2 } else { 1 };
        if o.state != want_state {
            out.push(v("C09", "state-mismatch", format!("state {} (0 NotStarted,1 Interrupted,2 Finished) but {} of {n} functions were processed", o.state, starts.len())));
            return;
        }
        if let Some(val) = &o.value {
            if *val != starts {
                out.push(v("C09", "fold-value-mismatch", format!("fold value {:?} != start order {:?}", val, starts)));
                return;
            }
        }
        if let Some(cont) = r.control_continue {
            let broke = any_failed(t);
            let want = o.state == 2 && !broke;
            if cont != want {
                out.push(v("C09", "control-flow-mismatch", format!("control variant returned {} with state {} and broke={broke}", if cont { "Continue" } else { "Break" }, o.state)));
            }
        }
    }
}

/// C10: limit.
pub fn o_limit(c: &Ctx, t: &Trace, out: &mut Vec<Violation>) {
    let api = c.rs.api;
    if api.is_stream() {
        return;
    }
    let cap = if api.is_fold() {
        Some(1)
    } else {
        match c.rs.limit {
            None | Some(0) => None,
            Some(l) => Some(l),
        }
    };
    let mut inflight = 0usize;
    for (pos, e) in t.log.iter().enumerate() {
        match e {
            Ev::Start(f) => {
                inflight += 1;
                if let Some(cap) = cap {
                    if inflight > cap {
                        out.push(v("C10", "limit-exceeded", format!("function {f} started at event {pos}: {inflight} user futures in flight, limit {cap}")));
                        return;
                    }
                }
            }
            Ev::End(..) | Ev::Cancelled(_) => inflight = inflight.saturating_sub(1),
            _ => {}
        }
    }
    // Any limit >= 1 still lets every graph run to completion.
    if cap.is_some() && !any_failed(t) && !interrupted_effectively(c.rs, t) && !root_dropped(t) {
        match &t.term {
            Term::Returned => {
                let started = t.log.iter().filter(|e| matches!(e, Ev::Start(_))).count();
                if started != c.gs.n {
                    out.push(v("C10", "limited-run-incomplete", format!("limit {:?}: run returned after {started} of {} functions", cap, c.gs.n)));
                }
            }
            Term::Deadlock | Term::Livelock | Term::LostWake(_) => {
                out.push(v("C10", "limited-run-blocked", format!("limit {:?}: run did not complete ({:?})", cap, t.term)));
            }
            _ => {}
        }
    }
}

pub fn max_in_flight(t: &Trace) -> usize {
    let (mut cur, mut max) = (0usize, 0usize);
    for e in &t.log {
        if hand(e).is_some() {
            cur += 1;
            max = max.max(cur);
        } else if gone(e).is_some() {
            cur = cur.saturating_sub(1);
        }
    }
    max
}

pub fn starts_after_signal(t: &Trace) -> Option<usize> {
    let p = t.log.iter().position(|e| *e == Ev::Signal)?;
    Some(t.log[p..].iter().filter(|e| hand(e).is_some()).count())
}

/// All single-run oracles (used by C15 / C20 on each run's own log).
pub fn all_single_run(c: &Ctx, t: &Trace, out: &mut Vec<Violation>) {
    o_conflict(c, t, out);
    o_dep(c, t, out);
    o_once(c, t, out);
    o_term(c, t, out);
    o_stream(c, t, out);
    o_eager(c, t, out);
    o_fail(c, t, out);
    o_intr(c, t, out);
    o_outcome(c, t, out);
    o_limit(c, t, out);
}

pub fn is_user_kind(k: BK) -> bool {
    k != BK::Data
}

#[allow(dead_code)]
fn _api_used(_: Api) {}
