//! One build() of one member of a C18 growth family, for instruction counting under
//! `valgrind --tool=callgrind --toggle-collect='*build_measured*'` (deterministic "logical steps").
//!
//! fgv_build --family F --size S --seed X

use fgv::buildchecks::growth_family;
use fgv::choice::{mix, Rng};
use fgv::tfn::{self, TFn};
use fn_graph::{FnGraph, FnGraphBuilder};

#[inline(never)]
pub fn build_measured(b: FnGraphBuilder<TFn>) -> FnGraph<TFn> {
    b.build()
}

fn arg(args: &[String], k: &str) -> Option<String> {
    args.iter().position(|a| a == k).and_then(|i| args.get(i + 1).cloned())
}

fn main() {
    let args: Vec<String> = std::env::args().collect();
    let fam: usize = arg(&args, "--family").and_then(|s| s.parse().ok()).unwrap_or(0);
    let size: usize = arg(&args, "--size").and_then(|s| s.parse().ok()).unwrap_or(10);
    let seed: u64 = arg(&args, "--seed").and_then(|s| s.parse().ok()).unwrap_or(0);
    let mut rng = Rng::new(mix(seed, (fam * 1000 + size) as u64));
    let gs = growth_family(fam, size, &mut rng);
    let (b, _) = tfn::builder_from_spec(&gs);
    let g = build_measured(b);
    println!("BUILT family={fam} size={size} functions={} edges={}", g.graph.node_count(), g.graph.edge_count());
}
