//! C19 reflection probe: asks the trait solver whether the *actual values* returned by the real
//! API are `Send` / `Sync`, and prints the answers as run-time booleans.
//!
//! This is not execution monitoring: whether a type is `Send` is a typing fact. Autoref
//! specialisation (`(&Probe(&value)).is_send()`) lets one binary report the facts for every value
//! without failing to compile when one of them is not `Send`.

use std::future::Future;
use std::ops::ControlFlow;
use std::rc::Rc;

use fgv::model::GraphSpec;
use fgv::tfn::{self, TFn};
use fn_graph::{FnGraph, StreamOpts};
use futures::StreamExt;

struct Probe<'a, T: ?Sized>(&'a T);

trait SendYes {
    fn is_send(&self) -> bool;
}
trait SendNo {
    fn is_send(&self) -> bool;
}
impl<T: ?Sized + Send> SendYes for Probe<'_, T> {
    fn is_send(&self) -> bool {
        true
    }
}
impl<T: ?Sized> SendNo for &Probe<'_, T> {
    fn is_send(&self) -> bool {
        false
    }
}
trait SyncYes {
    fn is_sync(&self) -> bool;
}
trait SyncNo {
    fn is_sync(&self) -> bool;
}
impl<T: ?Sized + Sync> SyncYes for Probe<'_, T> {
    fn is_sync(&self) -> bool {
        true
    }
}
impl<T: ?Sized> SyncNo for &Probe<'_, T> {
    fn is_sync(&self) -> bool {
        false
    }
}

macro_rules! is_send {
    ($v:expr) => {
        (&Probe(&$v)).is_send()
    };
}
macro_rules! is_sync {
    ($v:expr) => {
        (&Probe(&$v)).is_sync()
    };
}

// User futures live in separate functions so that nothing about them is left to inference inside
// the probing function. They are deliberately Send but NOT Sync (a Cell lives across an await),
// and the error / break type is Send but NOT Sync as well: the property only promises Send
// "whenever ... the caller's futures are Send".
#[derive(Debug)]
pub struct SendNotSync(pub std::cell::Cell<u32>);

async fn not_sync_body() {
    let c = std::cell::Cell::new(0u32);
    std::future::ready(()).await;
    c.set(c.get() + 1);
}

fn user_unit(_f: &TFn) -> impl Future<Output = ()> + Send + 'static {
    not_sync_body()
}
fn user_unit_mut(f: &mut TFn) -> impl Future<Output = ()> + Send + 'static {
    f.runs += 1;
    not_sync_body()
}
fn user_res(_f: &TFn) -> impl Future<Output = Result<(), SendNotSync>> + Send + 'static {
    async {
        not_sync_body().await;
        Ok(())
    }
}
fn user_res_mut(f: &mut TFn) -> impl Future<Output = Result<(), SendNotSync>> + Send + 'static {
    f.runs += 1;
    async {
        not_sync_body().await;
        Ok(())
    }
}
fn user_cf(_f: &TFn) -> impl Future<Output = ControlFlow<SendNotSync, ()>> + Send + 'static {
    async {
        not_sync_body().await;
        ControlFlow::Continue(())
    }
}
fn user_cf_mut(f: &mut TFn) -> impl Future<Output = ControlFlow<SendNotSync, ()>> + Send + 'static {
    f.runs += 1;
    async {
        not_sync_body().await;
        ControlFlow::Continue(())
    }
}

fn graph() -> FnGraph<TFn> {
    let mut gs = GraphSpec::new(3).edge(0, 2).edge(1, 2);
    gs.writes[0] = 1;
    gs.reads[1] = 1;
    tfn::build(&gs)
}

fn main() {
    let mut rows: Vec<(&'static str, bool)> = Vec::new();
    // negative / positive controls: the probe can say no and yes
    rows.push(("control.Rc.send", is_send!(Rc::new(1u8))));
    rows.push(("control.u8.send", is_send!(1u8)));
    rows.push(("control.Rc.sync", is_sync!(Rc::new(1u8))));
    rows.push(("control.error_type.send", is_send!(SendNotSync(std::cell::Cell::new(0)))));
    rows.push(("control.error_type.sync", is_sync!(SendNotSync(std::cell::Cell::new(0)))));
    rows.push(("control.user_future.send", is_send!(not_sync_body())));
    rows.push(("control.user_future.sync", is_sync!(not_sync_body())));

    let g = graph();
    rows.push(("FnGraph.send", is_send!(g)));
    rows.push(("FnGraph.sync", is_sync!(g)));
    {
        let s = g.stream();
        rows.push(("stream.send", is_send!(s)));
        let mut s = Box::pin(s);
        let waker = std::task::Waker::noop();
        let mut cx = std::task::Context::from_waker(&waker);
        if let std::task::Poll::Ready(Some(fn_ref)) = s.poll_next_unpin(&mut cx) {
            rows.push(("FnRef.send", is_send!(fn_ref)));
        }
    }
    {
        let s = g.stream_with(StreamOpts::new().rev());
        rows.push(("stream_with.send", is_send!(s)));
    }
    #[cfg(feature = "b")]
    {
        let s = g.stream_interruptible();
        rows.push(("info.stream_interruptible.send", is_send!(s)));
    }
    {
        let f = g.fold_async(0u32, |s, _f| Box::pin(async move { s }));
        rows.push(("control.fold_async.send", is_send!(f)));
    }
    {
        let f = g.for_each_concurrent(None, user_unit);
        rows.push(("for_each_concurrent.send", is_send!(f)));
        let f = g.for_each_concurrent_with(2, StreamOpts::new().rev(), user_unit);
        rows.push(("for_each_concurrent_with.send", is_send!(f)));
        let f = g.try_for_each_concurrent(None, user_res);
        rows.push(("try_for_each_concurrent.send", is_send!(f)));
        let f = g.try_for_each_concurrent_with(None, StreamOpts::new(), user_res);
        rows.push(("try_for_each_concurrent_with.send", is_send!(f)));
        let f = g.try_for_each_concurrent_control(None, user_cf);
        rows.push(("try_for_each_concurrent_control.send", is_send!(f)));
        let f = g.try_for_each_concurrent_control_with(None, StreamOpts::new(), user_cf);
        rows.push(("try_for_each_concurrent_control_with.send", is_send!(f)));
    }
    {
        let mut g1 = graph();
        let f = g1.for_each_concurrent_mut(None, user_unit_mut);
        rows.push(("for_each_concurrent_mut.send", is_send!(f)));
        drop(f);
        let f = g1.for_each_concurrent_mut_with(None, StreamOpts::new(), user_unit_mut);
        rows.push(("for_each_concurrent_mut_with.send", is_send!(f)));
        drop(f);
        let f = g1.try_for_each_concurrent_mut(None, user_res_mut);
        rows.push(("try_for_each_concurrent_mut.send", is_send!(f)));
        drop(f);
        let f = g1.try_for_each_concurrent_mut_with(None, StreamOpts::new(), user_res_mut);
        rows.push(("try_for_each_concurrent_mut_with.send", is_send!(f)));
        drop(f);
        let f = g1.try_for_each_concurrent_control_mut(None, user_cf_mut);
        rows.push(("try_for_each_concurrent_control_mut.send", is_send!(f)));
        drop(f);
        let f = g1.try_for_each_concurrent_control_mut_with(None, StreamOpts::new(), user_cf_mut);
        rows.push(("try_for_each_concurrent_control_mut_with.send", is_send!(f)));
        drop(f);
    }
    let cfg = if fgv::CFG_B { "B" } else { "A" };
    print!("{{\"config\":\"{cfg}\",\"facts\":{{");
    for (i, (k, v)) in rows.iter().enumerate() {
        if i > 0 {
            print!(",");
        }
        print!("\"{k}\":{v}");
    }
    println!("}}}}");
}
