//! Small fixed-size workloads meant to run under Miri / ThreadSanitizer (and natively as a smoke
//! test). No wall-clock verdicts.
//!
//! fgv_san --mode director|xthread|threads|tokio|runtime --seed S --iters K

use fgv::choice::{mix, Rng, Tape};
use fgv::exec::run_case;
use fgv::gen::{self, apis_where, RunProfile};
use fgv::model::UserGraph;
use fgv::oracles::{self, Ctx, Violation};
use fgv::spec::{Mode, ALL_APIS};
use fgv::tfn;
use fgv::threads;

fn arg(args: &[String], k: &str) -> Option<String> {
    args.iter().position(|a| a == k).and_then(|i| args.get(i + 1).cloned())
}

fn main() {
    let args: Vec<String> = std::env::args().collect();
    let mode = arg(&args, "--mode").unwrap_or_else(|| "director".into());
    let seed: u64 = arg(&args, "--seed").and_then(|s| s.parse().ok()).unwrap_or(0);
    let iters: usize = arg(&args, "--iters").and_then(|s| s.parse().ok()).unwrap_or(4);
    let max_n: usize = arg(&args, "--max-n").and_then(|s| s.parse().ok()).unwrap_or(5);
    let cfg_b = fgv::CFG_B;
    let mut found: Vec<Violation> = Vec::new();
    let mut execs = 0u64;
    let mut events = 0u64;
    let mut rng = Rng::new(mix(seed, 0xabcdef));
    match mode.as_str() {
        "director" => {
            // every entry point, incl. _mut (RwLock-over-&mut trick), cancelled runs, early drops
            for it in 0..iters {
                for api in ALL_APIS.iter().copied().filter(|a| cfg_b || !a.needs_b()) {
                    let gs = threads::small_conflicting_graph(&mut rng, max_n);
                    let ug = UserGraph::from_spec(&gs);
                    let Some(mut g) = threads::try_build(&gs) else { continue };
                    let built = tfn::built_of(&g);
                    let mut prof = RunProfile::new(vec![api]);
                    prof.fail_pct = 30;
                    prof.intr_pct = 40;
                    prof.drop_pct = 30;
                    prof.spurious_pct = 20;
                    let rs = gen::random_run(&mut rng, gs.n, &prof, cfg_b);
                    let mut tape = Tape::random(mix(seed, (it * 100) as u64 + api as u64));
                    let tr = run_case(&mut g, &rs, &mut tape);
                    execs += 1;
                    events += tr.log.len() as u64;
                    let c = Ctx { gs: &gs, ug: &ug, built: &built, rs: &rs };
                    let mut out = Vec::new();
                    oracles::all_single_run(&c, &tr, &mut out);
                    for mut x in out {
                        x.detail = format!("{} | g={}|r={}|t={}", x.detail, gs.encode(), rs.encode(), tape.encode());
                        found.push(x);
                    }
                }
            }
        }
        "xthread" => {
            let mut st = threads::XStats::default();
            for it in 0..iters {
                let gs = threads::small_conflicting_graph(&mut rng, max_n);
                let out = threads::xthread_stream(&gs, mix(seed, it as u64), 1 + it % 3, it % 2 == 1, &mut st);
                execs += 1;
                found.extend(out);
            }
            events = st.yields + st.cross_thread_drops;
            let (out, races) = threads::xthread_drop_race(24, iters.min(40), seed % 2 == 1);
            execs += races;
            found.extend(out);
            println!("xthread: {:?}", st);
        }
        "threads" => {
            for it in 0..iters {
                let gs = threads::small_conflicting_graph(&mut rng, max_n);
                let (out, n) = threads::threads_directors(&gs, mix(seed, it as u64), 3, 3, cfg_b);
                execs += n;
                found.extend(out);
            }
        }
        "tokio" => {
            for it in 0..iters {
                let gs = threads::small_conflicting_graph(&mut rng, max_n);
                let (out, n) = threads::tokio_multi_thread(&gs, mix(seed, it as u64), 8);
                execs += n;
                found.extend(out);
                // the same graphs: a stream handed from thread to thread between polls
                for k in 0..4u64 {
                    let (out, h) = threads::stream_handoff(&gs, mix(seed ^ 0x4a6d, it as u64 * 4 + k));
                    execs += 1;
                    events += h;
                    found.extend(out);
                }
            }
        }
        "runtime" => {
            let apis = apis_where(cfg_b, |a| !a.is_stream());
            for it in 0..iters {
                for &api in &apis {
                    let gs = if it % 2 == 0 { threads::small_conflicting_graph(&mut rng, max_n) } else { gen::wide_graph(&mut rng, max_n.max(8) * 20) };
                    let ug = UserGraph::from_spec(&gs);
                    let Some(mut g) = threads::try_build(&gs) else { continue };
                    let built = tfn::built_of(&g);
                    let mut prof = RunProfile::new(vec![api]);
                    prof.fail_pct = 20;
                    let mut rs = gen::random_run(&mut rng, gs.n, &prof, cfg_b);
                    rs.modes = (0..gs.n).map(|_| if rng.chance(1, 2) { Mode::Ready } else { Mode::SelfWake(rng.range(1, 3) as u8) }).collect();
                    let tr = threads::runtime_case(&mut g, &rs);
                    execs += 1;
                    events += tr.log.len() as u64;
                    let c = Ctx { gs: &gs, ug: &ug, built: &built, rs: &rs };
                    let mut out = Vec::new();
                    oracles::all_single_run(&c, &tr, &mut out);
                    for mut x in out {
                        x.detail = format!("[tokio current-thread runtime] {} | g={}|r={}", x.detail, if gs.n <= 16 { gs.encode() } else { format!("(wide n={})", gs.n) }, rs.encode());
                        found.push(x);
                    }
                }
            }
        }
        other => {
            eprintln!("unknown mode {other}");
            std::process::exit(2);
        }
    }
    for f in found.iter().take(10) {
        println!("SAN-VIOLATION property={} kind={} detail={}", f.prop, f.kind, f.detail.replace('\n', " "));
    }
    println!("SAN-SUMMARY mode={mode} seed={seed} executions={execs} events={events} violations={}", found.len());
    if !found.is_empty() {
        std::process::exit(1);
    }
}
