//! C19, second probe: the function type is `Send + Sync` but NOT `'static` (it borrows a counter
//! from the caller's stack). The property promises Send "whenever F is Send + Sync": nothing about
//! `'static`. A value that is Send only for `F: 'static` cannot be expressed as a run-time boolean
//! (the trait solver answers such a region-dependent question with a compile error, not with
//! "no"), so this probe is a *workload*: every returned value is really moved to a scoped thread
//! and driven / dropped there. The driver builds it twice:
//!   - normally: the moves go through `std::thread::Scope::spawn`, which demands `Send`;
//!   - with the harness feature `probe_nosend`: the same code runs everything on the calling
//!     thread and demands nothing.
//! If the second build compiles and the first does not, the only thing the first adds is the Send
//! requirement - that is the violation, and the compiler's message is the witness.

use std::future::Future;
use std::ops::ControlFlow;
use std::sync::atomic::{AtomicUsize, Ordering};

use fn_graph::{DataAccessDyn, FnGraph, FnGraphBuilder, StreamOpts, TypeIds};
use futures::StreamExt;

#[derive(Debug)]
struct Bump<'a> {
    counter: &'a AtomicUsize,
    amount: usize,
    writes: bool,
}

impl Bump<'_> {
    fn call(&self) {
        self.counter.fetch_add(self.amount, Ordering::SeqCst);
    }
}

struct Shared;

impl DataAccessDyn for Bump<'_> {
    fn borrows(&self) -> TypeIds {
        let mut t = TypeIds::new();
        if !self.writes {
            t.push(std::any::TypeId::of::<Shared>());
        }
        t
    }
    fn borrow_muts(&self) -> TypeIds {
        let mut t = TypeIds::new();
        if self.writes {
            t.push(std::any::TypeId::of::<Shared>());
        }
        t
    }
}

fn graph<'a>(counter: &'a AtomicUsize) -> FnGraph<Bump<'a>> {
    let mut b = FnGraphBuilder::new();
    let a = b.add_fn(Bump { counter, amount: 1, writes: true });
    let x = b.add_fn(Bump { counter, amount: 10, writes: false });
    let y = b.add_fn(Bump { counter, amount: 100, writes: false });
    let z = b.add_fn(Bump { counter, amount: 1000, writes: true });
    b.add_logic_edge(a, x).unwrap();
    b.add_contains_edge(a, y).unwrap();
    b.add_logic_edge(x, z).unwrap();
    b.build()
}

#[derive(Debug)]
#[allow(dead_code)]
struct SendNotSync(std::cell::Cell<u32>);

/// Moves `t` to another (scoped) thread and runs `f` on it there.
#[cfg(not(feature = "probe_nosend"))]
fn elsewhere<T: Send, R: Send>(t: T, f: impl FnOnce(T) -> R + Send) -> R {
    std::thread::scope(|s| s.spawn(move || f(t)).join().expect("probe thread panicked"))
}
#[cfg(feature = "probe_nosend")]
fn elsewhere<T, R>(t: T, f: impl FnOnce(T) -> R) -> R {
    f(t)
}

fn block_on<Fut: Future>(fut: Fut) -> Fut::Output {
    tokio::runtime::Builder::new_current_thread().build().expect("runtime").block_on(fut)
}

fn opts_moved_in<'rx>(rev: bool) -> StreamOpts<'rx, 'rx> {
    let o = StreamOpts::new();
    if rev {
        o.rev()
    } else {
        o
    }
}

fn main() {
    let counter = AtomicUsize::new(0);
    let mut runs = 0usize;

    // FnGraph<F> itself: moved to another thread and back, and shared by reference
    let g = graph(&counter);
    let g = elsewhere(g, |g| g);
    elsewhere(&g, |g| assert_eq!(g.iter().count(), 4));
    runs += 2;

    // streams and FnRefs
    for rev in [false, true] {
        let n = if rev {
            elsewhere(g.stream_with(opts_moved_in(true)), |s| {
                block_on(async move {
                    let mut s = std::pin::pin!(s);
                    let mut n = 0;
                    while let Some(fn_ref) = s.next().await {
                        elsewhere(fn_ref, |r| r.call());
                        n += 1;
                    }
                    n
                })
            })
        } else {
            elsewhere(g.stream(), |s| {
                block_on(async move {
                    let mut s = std::pin::pin!(s);
                    let mut n = 0;
                    while let Some(fn_ref) = s.next().await {
                        elsewhere(fn_ref, |r| r.call());
                        n += 1;
                    }
                    n
                })
            })
        };
        assert_eq!(n, 4);
        runs += 1;
    }

    // the concurrent futures exist (and are promised Send) with default features only
    #[cfg(not(feature = "b"))]
    {
        let o = elsewhere(g.for_each_concurrent(None, |f| async move {
            tokio::task::yield_now().await;
            f.call();
        }), block_on);
        assert_eq!(o.fn_ids_processed.len(), 4);
        let o = elsewhere(g.for_each_concurrent_with(2, opts_moved_in(true), |f| async move {
            tokio::task::yield_now().await;
            f.call();
        }), block_on);
        assert_eq!(o.fn_ids_processed.len(), 4);
        let r = elsewhere(g.try_for_each_concurrent(None, |f| async move {
            tokio::task::yield_now().await;
            f.call();
            Result::<(), SendNotSync>::Ok(())
        }), block_on);
        assert!(r.is_ok());
        let r = elsewhere(g.try_for_each_concurrent_with(3, opts_moved_in(false), |f| async move {
            tokio::task::yield_now().await;
            f.call();
            Result::<(), SendNotSync>::Ok(())
        }), block_on);
        assert!(r.is_ok());
        let r = elsewhere(g.try_for_each_concurrent_control(None, |f| async move {
            tokio::task::yield_now().await;
            f.call();
            ControlFlow::<SendNotSync, ()>::Continue(())
        }), block_on);
        assert!(matches!(r, ControlFlow::Continue(_)));
        let r = elsewhere(g.try_for_each_concurrent_control_with(None, opts_moved_in(true), |f| async move {
            tokio::task::yield_now().await;
            f.call();
            ControlFlow::<SendNotSync, ()>::Continue(())
        }), block_on);
        assert!(matches!(r, ControlFlow::Continue(_)));
        runs += 6;

        let mut g = graph(&counter);
        let o = elsewhere(g.for_each_concurrent_mut(None, |f| {
            f.amount += 0;
            let c = f.counter;
            async move {
                tokio::task::yield_now().await;
                c.fetch_add(1, Ordering::SeqCst);
            }
        }), block_on);
        assert_eq!(o.fn_ids_processed.len(), 4);
        let o = elsewhere(g.for_each_concurrent_mut_with(2, opts_moved_in(true), |f| {
            let c = f.counter;
            async move {
                tokio::task::yield_now().await;
                c.fetch_add(1, Ordering::SeqCst);
            }
        }), block_on);
        assert_eq!(o.fn_ids_processed.len(), 4);
        let r = elsewhere(g.try_for_each_concurrent_mut(None, |f| {
            let c = f.counter;
            async move {
                tokio::task::yield_now().await;
                c.fetch_add(1, Ordering::SeqCst);
                Result::<(), SendNotSync>::Ok(())
            }
        }), block_on);
        assert!(r.is_ok());
        let r = elsewhere(g.try_for_each_concurrent_mut_with(None, opts_moved_in(false), |f| {
            let c = f.counter;
            async move {
                tokio::task::yield_now().await;
                c.fetch_add(1, Ordering::SeqCst);
                Result::<(), SendNotSync>::Ok(())
            }
        }), block_on);
        assert!(r.is_ok());
        let r = elsewhere(g.try_for_each_concurrent_control_mut(None, |f| {
            let c = f.counter;
            async move {
                tokio::task::yield_now().await;
                c.fetch_add(1, Ordering::SeqCst);
                ControlFlow::<SendNotSync, ()>::Continue(())
            }
        }), block_on);
        assert!(matches!(r, ControlFlow::Continue(_)));
        let r = elsewhere(g.try_for_each_concurrent_control_mut_with(1, opts_moved_in(true), |f| {
            let c = f.counter;
            async move {
                tokio::task::yield_now().await;
                c.fetch_add(1, Ordering::SeqCst);
                ControlFlow::<SendNotSync, ()>::Continue(())
            }
        }), block_on);
        assert!(matches!(r, ControlFlow::Continue(_)));
        runs += 6;
    }
    let mode = if cfg!(feature = "probe_nosend") { "same-thread" } else { "other-threads" };
    println!("BORROW-PROBE ok mode={mode} config={} runs={runs} counter={}", if fgv::CFG_B { "B" } else { "A" }, counter.load(Ordering::SeqCst));
}
