use fgv::{choice::Tape, exec::*, model::*, oracles::*, spec::*, tfn};
fn main() {
    let gs = GraphSpec::new(3).edge(0, 2).edge(1, 2);
    let ug = UserGraph::from_spec(&gs);
    let mut g = tfn::build(&gs);
    let built = tfn::built_of(&g);
    for api in ALL_APIS {
        if api.needs_b() && !fgv::CFG_B { continue; }
        for seed in 0..200u64 {
            let rs = RunSpec::plain(api, 3, Mode::Held).normalise(fgv::CFG_B);
            let mut tape = Tape::random(seed);
            let t = run_case(&mut g, &rs, &mut tape);
            let c = Ctx { gs: &gs, ug: &ug, built: &built, rs: &rs };
            let mut out = vec![];
            all_single_run(&c, &t, &mut out);
            if !out.is_empty() {
                println!("{} seed {} tape {}: {:?}\n   {}", api.name(), seed, tape.encode(), out[0], log_str(&t.log, 60));
                break;
            }
        }
    }
    println!("done");
}
