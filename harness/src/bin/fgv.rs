//! Main entry: runs the monitors of one property in one configuration and writes an evidence part.
//!
//! fgv --prop C05 --tier quick --seed 1 --jobs 16 --out part.json
//! fgv --prop C05 --replay-case 'g=..|r=..|t=..'

use std::time::{Duration, Instant};

use fgv::json::J;
use fgv::runner::{install_quiet_panic_hook, Opts, Stats, Tier};

fn arg(args: &[String], k: &str) -> Option<String> {
    args.iter().position(|a| a == k).and_then(|i| args.get(i + 1).cloned())
}

fn main() {
    let args: Vec<String> = std::env::args().collect();
    let prop = arg(&args, "--prop").expect("--prop");
    let tier = match arg(&args, "--tier").as_deref() {
        Some("thorough") => Tier::Thorough,
        _ => Tier::Quick,
    };
    let seed: u64 = arg(&args, "--seed").and_then(|s| s.parse().ok()).unwrap_or(0);
    let jobs: usize = arg(&args, "--jobs").and_then(|s| s.parse().ok()).unwrap_or(16);
    let scale: f64 = arg(&args, "--scale").and_then(|s| s.parse().ok()).unwrap_or(1.0);
    let cap_s: u64 = arg(&args, "--time-cap").and_then(|s| s.parse().ok()).unwrap_or(if tier == Tier::Quick { 60 } else { 900 });
    let out = arg(&args, "--out");
    let cfg = if fgv::CFG_B { "B" } else { "A" };
    install_quiet_panic_hook();

    if let Some(case) = arg(&args, "--replay-case") {
        std::process::exit(fgv::replay::replay(&prop, &case));
    }

    let opts = Opts { prop: prop.clone(), tier, seed, jobs, scale, time_cap: Duration::from_secs(cap_s) };
    let t0 = Instant::now();
    let (mut stats, floors, rule): (Stats, Vec<String>, String) = match fgv::dispatch::run(&opts) {
        Some(x) => x,
        None => {
            // property has nothing to run in this configuration
            println!("NOT-APPLICABLE property={prop} config={cfg}");
            if let Some(out) = out {
                std::fs::write(out, J::obj(vec![("config", J::s(cfg)), ("prop", J::s(prop)), ("not_applicable", J::Bool(true))]).to_string()).unwrap();
            }
            return;
        }
    };
    let wall = t0.elapsed().as_secs_f64();
    let helper_passes = fgv::apis::OUTCOME_HELPER_PASSES.load(std::sync::atomic::Ordering::Relaxed);
    if helper_passes > 0 {
        stats.add("outcomes_carried_through_helper_methods", helper_passes);
    }
    let exhaustive = stats.counters.get("exhaustive.complete").copied().unwrap_or(0) == 1;
    let part = J::obj(vec![
        ("config", J::s(cfg)),
        ("prop", J::s(prop.clone())),
        ("tier", J::s(if tier == Tier::Quick { "quick" } else { "thorough" })),
        ("seed", J::u(seed)),
        ("evaluations", J::u(stats.evaluations)),
        ("distinct_nontrivial", J::u(stats.distinct.len() as u64)),
        ("rule", J::s(rule)),
        ("exhaustive_subspace_complete", J::Bool(exhaustive)),
        ("counters", J::Obj(stats.counters.iter().map(|(k, v)| (k.clone(), J::u(*v))).collect())),
        ("maxes", J::Obj(stats.maxes.iter().map(|(k, v)| (k.clone(), J::u(*v))).collect())),
        ("samples", J::Arr(stats.samples.clone())),
        ("violation_count", J::u(stats.violation_count)),
        (
            "violations",
            J::Arr(
                stats
                    .found
                    .iter()
                    .map(|f| {
                        J::obj(vec![
                            ("prop", J::s(f.prop.clone())),
                            ("kind", J::s(f.kind.clone())),
                            ("detail", J::s(f.detail.clone())),
                            ("case", J::s(f.case.clone())),
                            ("log", J::s(f.log.clone())),
                        ])
                    })
                    .collect(),
            ),
        ),
        ("inconclusive", J::Arr(stats.inconclusive.iter().map(|s| J::s(s.clone())).collect())),
        ("floors_missed", J::Arr(floors.iter().map(|s| J::s(s.clone())).collect())),
        ("wall_s", J::Num(wall)),
    ]);
    if let Some(out) = out {
        std::fs::write(&out, part.to_string()).expect("write part");
    } else {
        println!("{part}");
    }
    eprintln!(
        "[fgv {cfg}] {prop}: {} executions, {} distinct non-trivial, {} violations, {:.1}s",
        stats.evaluations,
        stats.distinct.len(),
        stats.violation_count,
        wall
    );
    if stats.violation_count > 0 {
        std::process::exit(1);
    }
    if !stats.inconclusive.is_empty() || !floors.is_empty() {
        std::process::exit(2);
    }
}
