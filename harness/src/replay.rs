//! Re-executes a recorded case.

use crate::choice::Tape;
use crate::exec::log_str;
use crate::model::GraphSpec;
use crate::oracles::Ctx;
use crate::runner::{Subject, Tier};
use crate::spec::RunSpec;

pub fn parse_case(case: &str) -> Result<Vec<(String, String)>, String> {
    case.split('|')
        .map(|p| p.split_once('=').map(|(k, v)| (k.to_string(), v.to_string())).ok_or_else(|| format!("bad part {p}")))
        .collect()
}

pub fn get<'a>(parts: &'a [(String, String)], k: &str) -> Option<&'a str> {
    parts.iter().find(|p| p.0 == k).map(|p| p.1.as_str())
}

/// Returns the process exit code: 1 if the violation reproduces, 0 if the case passes, 2 on error.
pub fn replay(prop: &str, case: &str) -> i32 {
    let parts = match parse_case(case) {
        Ok(p) => p,
        Err(e) => {
            println!("replay: {e}");
            return 2;
        }
    };
    match prop {
        "C05" if get(&parts, "xthread_drop_race").is_some() || get(&parts, "xthread_seed").is_some() => {
            // real-thread cases: a race, re-executed many times (exit 0 means "did not show up in
            // this many trials", not a proof of absence)
            let rev = get(&parts, "rev") == Some("1");
            let out = if get(&parts, "xthread_drop_race").is_some() {
                let n: usize = get(&parts, "n").and_then(|x| x.parse().ok()).unwrap_or(40);
                crate::threads::xthread_drop_race(n, 3000, rev).0
            } else {
                let gs = match GraphSpec::decode(get(&parts, "g").unwrap_or("")) {
                    Ok(g) => g,
                    Err(e) => {
                        println!("replay: {e}");
                        return 2;
                    }
                };
                let seed: u64 = get(&parts, "xthread_seed").and_then(|x| x.parse().ok()).unwrap_or(0);
                let workers: usize = get(&parts, "workers").and_then(|x| x.parse().ok()).unwrap_or(2);
                let mut st = crate::threads::XStats::default();
                let mut all = Vec::new();
                for k in 0..200 {
                    all = crate::threads::xthread_stream(&gs, seed.wrapping_add(k * 0x9E37), workers, rev, &mut st);
                    if !all.is_empty() {
                        break;
                    }
                }
                all
            };
            let out: Vec<_> = out.into_iter().filter(|v| v.prop == prop).collect();
            for v in &out {
                println!("violated: {} {}: {}", v.prop, v.kind, v.detail);
            }
            if out.is_empty() {
                println!("replay: did not show up in this many trials (real threads: a race)");
                0
            } else {
                1
            }
        }
        #[cfg(feature = "b")]
        "C08" | "C04" if get(&parts, "shared_state_seed").is_some() => {
            let gs = match GraphSpec::decode(get(&parts, "g").unwrap_or("")) {
                Ok(g) => g,
                Err(e) => {
                    println!("replay: {e}");
                    return 2;
                }
            };
            let seed: u64 = get(&parts, "shared_state_seed").and_then(|x| x.parse().ok()).unwrap_or(0);
            let (out, made) = crate::sharedstate::shared_state_case(&gs, seed);
            println!("calls made with one shared InterruptibilityState: {made}");
            let out: Vec<_> = out.into_iter().filter(|v| v.prop == prop).collect();
            for v in &out {
                println!("violated: {} {}: {}", v.prop, v.kind, v.detail);
            }
            if out.is_empty() {
                0
            } else {
                1
            }
        }
        "C01" | "C02" | "C03" | "C04" | "C05" | "C06" | "C07" | "C08" | "C09" | "C10" => {
            let (Some(g), Some(r), Some(t)) = (get(&parts, "g"), get(&parts, "r"), get(&parts, "t").or(Some(""))) else {
                println!("replay: case needs g, r, t");
                return 2;
            };
            let (gs, rs, tape) = match (GraphSpec::decode(g), RunSpec::decode(r), Tape::decode(t)) {
                (Ok(a), Ok(b), Ok(c)) => (a, b, c),
                e => {
                    println!("replay: cannot decode: {:?}", (e.0.err(), e.1.err(), e.2.err()));
                    return 2;
                }
            };
            let Some(plan) = crate::sched::plan(prop, Tier::Quick, crate::CFG_B) else {
                println!("replay: {prop} not available in this configuration");
                return 2;
            };
            let mut sub = match Subject::new(gs) {
                Ok(s) => s,
                Err(e) => {
                    println!("replay: build() panicked: {e}");
                    return 2;
                }
            };
            let mut tape = Tape::forced(tape);
            let tr = if get(&parts, "rt").is_some() {
                let hold: usize = get(&parts, "hold").and_then(|h| h.parse().ok()).unwrap_or(0);
                println!("(replaying inside a tokio current-thread runtime, hold={hold})");
                if rs.api.is_stream() {
                    crate::threads::runtime_stream_case(&sub.g, &rs, hold)
                } else {
                    crate::threads::runtime_case(&mut sub.g, &rs)
                }
            } else {
                crate::exec::run_case(&mut sub.g, &rs, &mut tape)
            };
            println!("graph: {}", sub.gs.encode());
            println!("built edges: {:?}", sub.built.edges);
            println!("run: {}", rs.encode());
            println!("tape: {}", tape.encode());
            println!("terminated: {:?}", tr.term);
            println!("events: {}", log_str(&tr.log, 2000));
            println!("result: {:?}", tr.result);
            let c = Ctx { gs: &sub.gs, ug: &sub.ug, built: &sub.built, rs: &rs };
            let mut out = Vec::new();
            (plan.check)(&c, &tr, &mut out);
            let out: Vec<_> = out.into_iter().filter(|v| v.prop == prop).collect();
            for v in &out {
                println!("violated: {} {}: {}", v.prop, v.kind, v.detail);
            }
            if out.is_empty() {
                println!("replay: property held on this case");
                0
            } else {
                1
            }
        }
        "C15" | "C20" => crate::multirun::replay(prop, &parts, crate::CFG_B),
        "C11" | "C12" | "C13" | "C14" | "C16" | "C17" | "C18" => crate::buildchecks::replay(prop, &parts),
        _ => {
            println!("replay: unknown property {prop}");
            2
        }
    }
}
